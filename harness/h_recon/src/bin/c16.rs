//! C16 (exploration): MessagePack and Recon reading paths of Form types on the real code.

use std::collections::{BTreeMap, HashMap};
use std::fmt::Debug;

use bytes::{BufMut, BytesMut};
use num_bigint::{BigInt, BigUint};
use swimos_form::write::StructuralWritable;
use swimos_form::read::StructuralReadable;
use swimos_form::Form;
use swimos_model::{Attr, Blob, Item, Text, Value};
use swimos_msgpack::{read_from_msg_pack, MsgPackInterpreter};
use swimos_recon::parser::{parse_recognize, Span};
use swimos_recon::print_recon_compact;
use vcore::*;

fn to_msgpack<T: StructuralWritable>(v: &T) -> Result<Vec<u8>, String> {
    let mut buffer = BytesMut::new();
    let mut writer = (&mut buffer).writer();
    v.write_with(MsgPackInterpreter::new(&mut writer)).map_err(|e| format!("{:?}", e))?;
    Ok(buffer.to_vec())
}

fn from_msgpack<T: StructuralReadable>(bytes: &[u8]) -> Result<T, String> {
    let mut b = bytes::Bytes::from(bytes.to_vec());
    read_from_msg_pack::<T, _>(&mut b).map_err(|e| format!("{:?}", e))
}

fn gen_value(rng: &mut Rng, depth: u32) -> Value {
    let top = if depth == 0 { 11 } else { 14 };
    match rng.below(top) {
        0 => Value::Extant,
        1 => Value::Int32Value(*rng.pick(&[0, 1, -1, 127, 128, -32, -33, 255, 256, 65535, 65536, i32::MAX, i32::MIN])),
        2 => Value::Int64Value(*rng.pick(&[0, -1, i64::MAX, i64::MIN, 1 << 32, -(1 << 31) - 1, u32::MAX as i64])),
        3 => Value::UInt32Value(*rng.pick(&[0, 1, u32::MAX, 70000])),
        4 => Value::UInt64Value(*rng.pick(&[0, 1, u64::MAX, 1 << 63, (1 << 63) - 1])),
        5 => Value::Float64Value(*rng.pick(&[0.0, -0.0, 1.0, -1.5, 1e300, 5e-324, 0.1])),
        6 => Value::BooleanValue(rng.below(2) == 0),
        7 => Value::BigInt(BigInt::from(*rng.pick(&[0i64, 1, 5, -1, -5, i64::MIN, i64::MAX])) * BigInt::from(*rng.pick(&[1i64, 1 << 40, 1 << 62]))),
        8 => Value::BigUint(BigUint::from(*rng.pick(&[0u64, 1, 255, 256, u64::MAX])) * BigUint::from(*rng.pick(&[1u64, 1 << 50]))),
        9 => {
            let n = *rng.pick(&[0usize, 1, 5, 31, 32, 255, 256, 300]);
            Value::Text(Text::new(&(0..n).map(|i| if i % 7 == 3 { 'é' } else { 'a' }).collect::<String>()))
        }
        10 => {
            let n = *rng.pick(&[0usize, 1, 3, 255, 256]);
            Value::Data(Blob::from_vec((0..n).map(|_| rng.below(256) as u8).collect()))
        }
        _ => {
            let nattrs = *rng.pick(&[0usize, 0, 1, 2, 16]);
            let nitems = *rng.pick(&[0usize, 1, 2, 3, 16]);
            let kind = rng.below(3);
            let attrs = (0..nattrs).map(|i| Attr::of((Text::new(&format!("a{}", i)), gen_value(rng, depth.saturating_sub(1))))).collect();
            let items = (0..nitems)
                .map(|_| {
                    let slot = match kind {
                        0 => false,
                        1 => true,
                        _ => rng.below(2) == 0,
                    };
                    if slot {
                        Item::Slot(gen_value(rng, depth.saturating_sub(1)), gen_value(rng, depth.saturating_sub(1)))
                    } else {
                        Item::ValueItem(gen_value(rng, depth.saturating_sub(1)))
                    }
                })
                .collect();
            Value::Record(attrs, items)
        }
    }
}

/// The scalar of the Coq model (Model/MsgPack.v) for a model value; None for records.
fn coq_scalar(v: &Value) -> Option<String> {
    let int = |n: i128| if n >= 0 { format!("(MPos {})", n) } else { format!("(MNeg {})", -n) };
    Some(match v {
        Value::Extant => "MNil".to_string(),
        Value::BooleanValue(b) => format!("(MBool {})", b),
        Value::Int32Value(n) => int(*n as i128),
        Value::Int64Value(n) => int(*n as i128),
        Value::UInt32Value(n) => int(*n as i128),
        Value::UInt64Value(n) => int(*n as i128),
        Value::Float64Value(x) => format!("(MF64 {})", x.to_bits()),
        Value::BigInt(n) => format!("(MBigInt {} {})", n.sign() == num_bigint::Sign::Minus, n.magnitude()),
        Value::BigUint(n) => format!("(MBigUint {})", n),
        Value::Text(t) => format!("(MStr {})", coq_bytes(t.as_str().as_bytes())),
        Value::Data(b) => format!("(MBin {})", coq_bytes(b.as_ref())),
        Value::Record(..) => return None,
    })
}

fn gen_scalar(rng: &mut Rng) -> Value {
    match rng.below(12) {
        0 => Value::Extant,
        1 => Value::BooleanValue(rng.below(2) == 0),
        2 => {
            // around every boundary of the integer formats
            let b = *rng.pick(&[0i128, 127, 128, 255, 256, 65535, 65536, (1 << 31) - 1, 1 << 31, (1 << 32) - 1, 1 << 32, (1 << 63) - 1]);
            let n = b + rng.below(5) as i128 - 2;
            if n < 0 {
                Value::Int64Value(n as i64)
            } else if rng.below(2) == 0 || n > i64::MAX as i128 {
                Value::UInt64Value(n as u64)
            } else {
                Value::Int64Value(n as i64)
            }
        }
        3 => {
            let b = *rng.pick(&[1i128, 32, 33, 128, 129, 32768, 32769, 1 << 31, (1 << 31) + 1, 1 << 63]);
            let n = (b + rng.below(3) as i128 - 1).clamp(1, 1 << 63);
            Value::Int64Value((-n) as i64)
        }
        4 => Value::UInt64Value(u64::MAX - rng.below(3)),
        5 => Value::Int32Value(rng.next_u64() as i32),
        6 => Value::Float64Value(f64::from_bits(*rng.pick(&[0u64, 1 << 63, 0x3ff0000000000000, 0x7ff0000000000000, 0xfff0000000000000, 1, 0x7fefffffffffffff, 0x3fb999999999999a]))),
        7 => {
            let mag = BigInt::from(rng.next_u64()) * BigInt::from(*rng.pick(&[0u64, 1, 255, 256, 1 << 40, u64::MAX])) * BigInt::from(*rng.pick(&[1u64, 1 << 63]));
            Value::BigInt(if rng.below(2) == 0 { -mag } else { mag })
        }
        8 => Value::BigUint(BigUint::from(rng.next_u64() >> *rng.pick(&[0u32, 8, 56, 63, 64u32.min(63)])) * BigUint::from(*rng.pick(&[0u64, 1, 1 << 40, u64::MAX]))),
        9 => {
            let n = *rng.pick(&[0usize, 1, 30, 31, 32, 33, 254, 255, 256, 257, 300]);
            Value::Text(Text::new(&(0..n).map(|i| if i % 7 == 3 { 'x' } else { 'a' }).collect::<String>()))
        }
        10 => Value::Text(Text::new(*rng.pick(&["é", "名前", "a\u{1F600}b", "\u{0}"]))),
        _ => {
            let n = *rng.pick(&[0usize, 1, 3, 254, 255, 256, 257]);
            Value::Data(Blob::from_vec((0..n).map(|_| rng.below(256) as u8).collect()))
        }
    }
}

fn main() {
    let args = parse_args();
    silence_panics();
    let mut rng = Rng::new(args.seed ^ 0xc16);
    let mut w = CaseWriter::new(
        "From SwimV Require Import Lib.Hex Model.MsgPack.\nOpen Scope N_scope.",
        "pcase",
        &["mp_corr_bad"],
        args.shards,
    );
    let mut nontrivial = 0u64;
    let mut kinds: BTreeMap<String, u64> = BTreeMap::new();
    let mut failures: Vec<String> = vec![];
    let mut evals = 0u64;
    let mut unfaithful = 0u64;

    macro_rules! typed {
        ($t:ty, $vals:expr) => {
            for x in $vals {
                let x: $t = x;
                evals += 1;
                *kinds.entry(format!("typed:{}", stringify!($t))).or_default() += 1;
                let r = catch(std::panic::AssertUnwindSafe(|| {
                    // model and back
                    let model = x.structure();
                    let back = <$t as Form>::try_from_value(&model).map_err(|e| format!("{:?}", e));
                    if back.as_ref().ok() != Some(&x) {
                        return Err(format!("{} {:?}: model {:?} converts back to {:?}", stringify!($t), x, model, back));
                    }
                    // msgpack and back
                    let bytes = to_msgpack(&x)?;
                    let back: Result<$t, String> = from_msgpack(&bytes);
                    if back.as_ref().ok() != Some(&x) {
                        return Err(format!("{} {:?}: MessagePack {:02x?} reads back as {:?}", stringify!($t), x, bytes, back));
                    }
                    // recon: direct vs via the model
                    let text = print_recon_compact(&x).to_string();
                    let direct = parse_recognize::<$t>(Span::new(&text), false).map_err(|e| format!("{:?}", e));
                    let parsed = parse_recognize::<Value>(Span::new(&text), false).map_err(|e| format!("{:?}", e));
                    let via_model = parsed.clone()
                        .and_then(|v| <$t as Form>::try_from_value(&v).map_err(|e| format!("{:?}", e)));
                    if parsed.as_ref().ok() == Some(&model) {
                        // the text says what the model says: both reading paths must give the value back
                        if direct.as_ref().ok() != Some(&x) || via_model.as_ref().ok() != Some(&x) {
                            return Err(format!("{} {:?}: Recon {:?} reads directly as {:?}, through the model as {:?}", stringify!($t), x, text, direct, via_model));
                        }
                    } else {
                        // the printed text does not denote the model (Recon has no text for some records, e.g. one
                        // whose only item is absent; printing is C09's business): the two paths still have to agree
                        unfaithful += 1;
                        if direct.as_ref().ok() != via_model.as_ref().ok() {
                            return Err(format!("{} {:?}: Recon {:?} reads directly as {:?}, through the model as {:?}", stringify!($t), x, text, direct, via_model));
                        }
                    }
                    Ok(())
                }));
                match r {
                    Ok(Ok(())) => {}
                    Ok(Err(e)) => failures.push(e),
                    Err(m) => failures.push(format!("{} {:?} panicked: {}", stringify!($t), x, m)),
                }
            }
        };
    }
    typed!(i32, [0, 1, -1, 127, 128, -32, -33, i32::MAX, i32::MIN]);
    typed!(i64, [0, -1, i64::MAX, i64::MIN, 1 << 40, i32::MAX as i64 + 1]);
    typed!(u32, [0, 1, u32::MAX, 65536]);
    typed!(u64, [0, 1, u64::MAX, 1 << 63, u32::MAX as u64 + 1]);
    typed!(f64, [0.0, 1.0, -1.5, 1e300, 5e-324, 0.1, 3.0]);
    typed!(bool, [true, false]);
    typed!(String, ["".to_string(), "a".to_string(), "two words".to_string(), "é名".to_string(), "true".to_string(), "x".repeat(300)]);
    typed!(BigInt, [BigInt::from(0), BigInt::from(5), BigInt::from(-5), BigInt::from(i64::MAX) * BigInt::from(4), BigInt::from(i64::MIN) * BigInt::from(4)]);
    typed!(BigUint, [BigUint::from(0u8), BigUint::from(7u8), BigUint::from(u64::MAX) * BigUint::from(3u8)]);
    typed!(Vec<i32>, [vec![], vec![1], vec![1, -2, 3], (0..20).collect::<Vec<i32>>()]);
    typed!(Vec<String>, [vec![], vec!["a".to_string(), "".to_string()]]);
    typed!(Option<i32>, [None, Some(0), Some(-5)]);
    typed!(HashMap<String, i32>, [HashMap::new(), [("a".to_string(), 1)].into_iter().collect(), [("a b".to_string(), 1), ("true".to_string(), -2)].into_iter().collect()]);
    typed!(HashMap<i32, String>, [HashMap::new(), [(1, "x".to_string()), (-2, "".to_string())].into_iter().collect()]);
    // collections whose keys / values / elements are themselves records (several read events per key)
    typed!(HashMap<(i32, i32), String>, [HashMap::new(), [((1, 2), "a".to_string())].into_iter().collect(), [((1, 2), "a".to_string()), ((-3, 4), "b c".to_string()), ((0, 0), "".to_string())].into_iter().collect()]);
    typed!(HashMap<Vec<i32>, i32>, [[(vec![], 1)].into_iter().collect(), [(vec![1, 2], 1), (vec![3], -2)].into_iter().collect()]);
    typed!(HashMap<Option<i32>, Vec<String>>, [[(None, vec![]), (Some(2), vec!["x".to_string(), "y z".to_string()])].into_iter().collect()]);
    typed!(HashMap<String, Vec<i32>>, [[("a".to_string(), vec![]), ("b".to_string(), vec![1, 2])].into_iter().collect()]);
    typed!(HashMap<String, HashMap<i32, i32>>, [[("a".to_string(), HashMap::new()), ("b".to_string(), [(1, 2), (3, 4)].into_iter().collect())].into_iter().collect()]);
    typed!(Vec<Vec<i32>>, [vec![vec![]], vec![vec![1], vec![], vec![2, 3]]]);
    typed!(Vec<Option<i32>>, [vec![None], vec![Some(1), None, Some(-2)]]);
    typed!(Vec<(i32, String)>, [vec![(1, "a".to_string()), (2, "".to_string())]]);
    typed!(Option<Vec<i32>>, [None, Some(vec![]), Some(vec![1, 2])]);
    typed!((i32, String), [(0, "".to_string()), (-7, "two words".to_string())]);
    typed!(Vec<HashMap<String, i32>>, [vec![HashMap::new(), [("k".to_string(), 1)].into_iter().collect()]]);
    typed!(Blob, [Blob::from_vec(vec![]), Blob::from_vec(vec![0, 1, 255])]);

    *kinds.entry("typed:printed_text_does_not_denote_the_model".into()).or_default() += unfaithful;

    // model values through MessagePack
    for i in 0..args.cases {
        let v = gen_value(&mut rng, if i % 3 == 0 { 3 } else { 2 });
        evals += 1;
        *kinds.entry("value_msgpack".into()).or_default() += 1;
        let r = catch(std::panic::AssertUnwindSafe(|| {
            let bytes = to_msgpack(&v)?;
            let back: Result<Value, String> = from_msgpack(&bytes);
            match &back {
                Ok(b) if *b == v => {}
                _ => return Err(format!("value {:?}: MessagePack {:02x?} reads back as {:?}", v, &bytes[..bytes.len().min(60)], back)),
            }
            // truncations never panic and are never accepted as a different value
            for cut in 0..bytes.len().min(80) {
                let t: Result<Value, String> = from_msgpack(&bytes[..cut]);
                if let Ok(tv) = t {
                    return Err(format!("value {:?}: the first {} of {} MessagePack bytes are accepted as {:?}", v, cut, bytes.len(), tv));
                }
            }
            Ok(())
        }));
        match r {
            Ok(Ok(())) => {}
            Ok(Err(e)) => failures.push(e),
            Err(m) => failures.push(format!("value {:?}: MessagePack round trip panicked: {}", v, m)),
        }
    }
    // scalars against the model: the bytes written, and what is read from them, their prefixes and mutations
    let mut dec_case = |w: &mut CaseWriter, kinds: &mut BTreeMap<String, u64>, failures: &mut Vec<String>, bytes: &[u8], kind: &str| {
        // maps (records) and f32 are outside the model; invalid UTF-8 is not a text
        if let Some(&m) = bytes.first() {
            if (0x80..=0x8f).contains(&m) || m == 0xde || m == 0xdf || m == 0xca {
                return;
            }
        }
        let r = catch(std::panic::AssertUnwindSafe(|| {
            let mut b = bytes::Bytes::from(bytes.to_vec());
            read_from_msg_pack::<Value, _>(&mut b)
        }));
        let (status, val) = match r {
            Ok(Ok(v)) => match coq_scalar(&v) {
                Some(c) => (0, Some(c)),
                None => return,
            },
            Ok(Err(swimos_msgpack::MsgPackReadError::Incomplete)) => (1, None),
            Ok(Err(swimos_msgpack::MsgPackReadError::StringDecode(_))) => return,
            Ok(Err(_)) => (2, None),
            Err(m) => {
                failures.push(format!("reading the bytes {:02x?} as MessagePack panicked: {}", bytes, m));
                return;
            }
        };
        *kinds.entry(format!("model_dec_{}_{}", kind, status)).or_default() += 1;
        w.push(format!("CaseDec {} {} {}", coq_bytes(bytes), status, coq_option(val.clone())), format!("read {} -> status {} {:?}", hex_of(bytes), status, val));
    };
    for _ in 0..args.cases * 2 {
        let v = gen_scalar(&mut rng);
        let term = coq_scalar(&v).unwrap();
        let bytes = match to_msgpack(&v) {
            Ok(b) => b,
            Err(e) => {
                failures.push(format!("scalar {:?}: writing as MessagePack failed: {}", v, e));
                continue;
            }
        };
        evals += 1;
        nontrivial += 1;
        *kinds.entry("model_enc".into()).or_default() += 1;
        w.push(format!("CaseEnc {} {}", term, coq_bytes(&bytes)), format!("write {:?} -> {}", v, hex_of(&bytes)));
        dec_case(&mut w, &mut kinds, &mut failures, &bytes, "whole");
        let mut followed = bytes.clone();
        followed.extend_from_slice(&[0x01, 0xc0]);
        dec_case(&mut w, &mut kinds, &mut failures, &followed, "followed");
        if bytes.len() > 1 {
            let cut = 1 + rng.usize_below(bytes.len() - 1);
            dec_case(&mut w, &mut kinds, &mut failures, &bytes[..cut], "prefix");
            dec_case(&mut w, &mut kinds, &mut failures, &bytes[..bytes.len() - 1], "prefix");
        }
        let mut m = bytes.clone();
        let i = rng.usize_below(m.len().min(6));
        m[i] = if rng.below(2) == 0 { m[i].wrapping_add(*rng.pick(&[1u8, 0xff, 0x10])) } else { *rng.pick(&[0xc1u8, 0xc4, 0xc7, 0xc8, 0xc9, 0xd4, 0xd5, 0xd6, 0xd7, 0xd8, 0xd9, 0xda, 0xdb, 0x90, 0xdc, 0xdd, 0xa5, 0x00, 0x01, 0x02, 0xff]) };
        dec_case(&mut w, &mut kinds, &mut failures, &m, "mutated");
    }
    w.finish(&args.out, "cases").unwrap();
    evals += w.len() as u64;

    // random bytes: no panic
    for _ in 0..args.cases {
        let n = rng.range(0, 24) as usize;
        let bytes: Vec<u8> = (0..n).map(|_| *rng.pick(&[0u8, 1, 0x80, 0x81, 0x90, 0x91, 0xa1, 0xc0, 0xc4, 0xc5, 0xc6, 0xc7, 0xc8, 0xc9, 0xca, 0xcb, 0xcc, 0xcf, 0xd0, 0xd4, 0xd5, 0xd8, 0xd9, 0xda, 0xdb, 0xdc, 0xdd, 0xde, 0xdf, 0xff, 0x61, 0x05])).collect();
        evals += 1;
        *kinds.entry("random_msgpack".into()).or_default() += 1;
        if let Err(m) = catch(std::panic::AssertUnwindSafe(|| {
            let _: Result<Value, String> = from_msgpack(&bytes);
            let _: Result<i32, String> = from_msgpack(&bytes);
            let _: Result<Vec<String>, String> = from_msgpack(&bytes);
        })) {
            failures.push(format!("reading the bytes {:02x?} as MessagePack panicked: {}", bytes, m));
        }
    }

    failures.sort();
    failures.dedup();
    std::fs::write(std::path::Path::new(&args.out).join("failures.txt"), failures.join("\n")).unwrap();
    let meta = J::obj(vec![
        ("evaluations", J::I(evals as i128)),
        ("distinct_nontrivial", J::I(nontrivial as i128)),
        ("rule", J::s("scalars against the model: MsgPackInterpreter's bytes for generated scalar values (integers around every format boundary of both signs, extreme floats, big integers of both signs and up to 24 bytes, texts and blobs around the 31/255 length boundaries), read_from_msg_pack::<Value> on those bytes, followed by more input, cut short and mutated (markers, lengths, extension types); oracles on the real code: typed values (integers, floats, texts, big integers, vectors, maps, options, blobs) through the model, MessagePack and Recon, generated model values with records (array-like, map-like, mixed; up to 16 attributes) through MessagePack, every prefix rejected, random bytes never panic")),
        ("structures", J::counts(&kinds)),
        ("samples", J::A(vec![])),
        ("direct_failures", J::A(failures.iter().take(40).map(|f| J::s(f.chars().take(500).collect::<String>())).collect())),
        ("direct_failure_count", J::I(failures.len() as i128)),
    ]);
    write_meta(&args.out, "meta.json", &meta);
}
