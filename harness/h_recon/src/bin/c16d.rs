//! C16, derived forms on the real code: a battery of derived structs / enums; for generated instances
//! model, MessagePack and Recon round trips, and for mutated (mostly schema-violating) inputs agreement of
//! the two reading paths (event-driven recogniser on the text vs parse to the model, then convert).

use std::collections::{BTreeMap, HashMap};
use std::fmt::Debug;

use bytes::{BufMut, BytesMut};
use swimos_form::read::StructuralReadable;
use swimos_form::write::StructuralWritable;
use swimos_form::{Form, Tag};
use swimos_model::{Attr, Item, Text, Value};
use swimos_msgpack::{read_from_msg_pack, MsgPackInterpreter};
use swimos_recon::parser::{parse_recognize, Span};
use swimos_recon::print_recon_compact;
use vcore::*;

fn to_msgpack<T: StructuralWritable>(v: &T) -> Result<Vec<u8>, String> {
    let mut buffer = BytesMut::new();
    let mut writer = (&mut buffer).writer();
    v.write_with(MsgPackInterpreter::new(&mut writer)).map_err(|e| format!("{:?}", e))?;
    Ok(buffer.to_vec())
}

fn from_msgpack<T: StructuralReadable>(bytes: &[u8]) -> Result<T, String> {
    let mut b = bytes::Bytes::from(bytes.to_vec());
    read_from_msg_pack::<T, _>(&mut b).map_err(|e| format!("{:?}", e))
}

trait Gen: Sized {
    fn gen(rng: &mut Rng) -> Self;
}

impl Gen for i32 {
    fn gen(rng: &mut Rng) -> Self {
        *rng.pick(&[0, 1, -1, 7, 127, 128, -33, 65536, i32::MAX, i32::MIN])
    }
}
impl Gen for i64 {
    fn gen(rng: &mut Rng) -> Self {
        *rng.pick(&[0, 1, -1, 1 << 40, i64::MAX, i64::MIN])
    }
}
impl Gen for u64 {
    fn gen(rng: &mut Rng) -> Self {
        *rng.pick(&[0, 1, 1 << 40, u64::MAX])
    }
}
impl Gen for bool {
    fn gen(rng: &mut Rng) -> Self {
        rng.below(2) == 0
    }
}
impl Gen for f64 {
    fn gen(rng: &mut Rng) -> Self {
        *rng.pick(&[0.0, 1.0, -1.5, 0.1, 1e300, 3.0])
    }
}
impl Gen for String {
    fn gen(rng: &mut Rng) -> Self {
        rng.pick(&["", "a", "name", "two words", "true", "é名", "a\"b\\c", "1", "x-y", "line\nbreak"]).to_string()
    }
}
impl<T: Gen> Gen for Option<T> {
    fn gen(rng: &mut Rng) -> Self {
        if rng.below(3) == 0 {
            None
        } else {
            Some(T::gen(rng))
        }
    }
}
impl<T: Gen> Gen for Vec<T> {
    fn gen(rng: &mut Rng) -> Self {
        let n = *rng.pick(&[0usize, 1, 2, 3]);
        (0..n).map(|_| T::gen(rng)).collect()
    }
}
impl<T: Gen> Gen for HashMap<String, T> {
    fn gen(rng: &mut Rng) -> Self {
        let n = *rng.pick(&[0usize, 1, 2, 3]);
        (0..n).map(|_| (String::gen(rng), T::gen(rng))).collect()
    }
}

#[derive(Form, Debug, PartialEq, Clone)]
struct Plain {
    a: i32,
    b: String,
}
impl Gen for Plain {
    fn gen(rng: &mut Rng) -> Self {
        Plain { a: Gen::gen(rng), b: Gen::gen(rng) }
    }
}

#[derive(Form, Debug, PartialEq, Clone)]
#[form(tag = "renamed")]
struct Tagged {
    #[form(name = "first")]
    a: i32,
    b: Option<i32>,
    c: f64,
}
impl Gen for Tagged {
    fn gen(rng: &mut Rng) -> Self {
        Tagged { a: Gen::gen(rng), b: Gen::gen(rng), c: Gen::gen(rng) }
    }
}

#[derive(Form, Debug, PartialEq, Clone)]
struct WithHeader {
    #[form(header)]
    h: i32,
    #[form(header)]
    g: String,
    a: i64,
}
impl Gen for WithHeader {
    fn gen(rng: &mut Rng) -> Self {
        WithHeader { h: Gen::gen(rng), g: Gen::gen(rng), a: Gen::gen(rng) }
    }
}

#[derive(Form, Debug, PartialEq, Clone)]
struct WithHeaderBody {
    #[form(header_body)]
    hb: i32,
    #[form(header)]
    h: String,
    a: bool,
}
impl Gen for WithHeaderBody {
    fn gen(rng: &mut Rng) -> Self {
        WithHeaderBody { hb: Gen::gen(rng), h: Gen::gen(rng), a: Gen::gen(rng) }
    }
}

// optional fields in the header: an absent one is left out of the header (the count announced to the writer
// must leave it out too)
#[derive(Form, Debug, PartialEq, Clone)]
struct OptHeader {
    #[form(header)]
    h: Option<i32>,
    #[form(header)]
    g: Option<String>,
    a: i64,
}
impl Gen for OptHeader {
    fn gen(rng: &mut Rng) -> Self {
        OptHeader { h: Gen::gen(rng), g: Gen::gen(rng), a: Gen::gen(rng) }
    }
}

#[derive(Form, Debug, PartialEq, Clone)]
struct OnlyOptHeader {
    #[form(header)]
    h: Option<i32>,
}
impl Gen for OnlyOptHeader {
    fn gen(rng: &mut Rng) -> Self {
        OnlyOptHeader { h: Gen::gen(rng) }
    }
}

#[derive(Form, Debug, PartialEq, Clone)]
struct OptHeaderWithBody {
    #[form(header_body)]
    hb: i32,
    #[form(header)]
    h: Option<String>,
    #[form(header)]
    k: Option<i32>,
    a: Option<bool>,
}
impl Gen for OptHeaderWithBody {
    fn gen(rng: &mut Rng) -> Self {
        OptHeaderWithBody { hb: Gen::gen(rng), h: Gen::gen(rng), k: Gen::gen(rng), a: Gen::gen(rng) }
    }
}

#[derive(Form, Debug, PartialEq, Clone)]
struct OptHeaderBody {
    #[form(header_body)]
    hb: Option<i32>,
    a: i64,
}
impl Gen for OptHeaderBody {
    fn gen(rng: &mut Rng) -> Self {
        OptHeaderBody { hb: Gen::gen(rng), a: Gen::gen(rng) }
    }
}

#[derive(Form, Debug, PartialEq, Clone)]
struct OptAttr {
    #[form(attr)]
    x: Option<i32>,
    b: Option<String>,
}
impl Gen for OptAttr {
    fn gen(rng: &mut Rng) -> Self {
        OptAttr { x: Gen::gen(rng), b: Gen::gen(rng) }
    }
}

#[derive(Form, Debug, PartialEq, Clone)]
struct OnlyHeaderBody {
    #[form(header_body)]
    hb: String,
    a: Option<String>,
}
impl Gen for OnlyHeaderBody {
    fn gen(rng: &mut Rng) -> Self {
        OnlyHeaderBody { hb: Gen::gen(rng), a: Gen::gen(rng) }
    }
}

#[derive(Form, Debug, PartialEq, Clone)]
struct WithAttr {
    #[form(attr)]
    at: i32,
    #[form(attr)]
    bt: Option<String>,
    a: String,
}
impl Gen for WithAttr {
    fn gen(rng: &mut Rng) -> Self {
        WithAttr { at: Gen::gen(rng), bt: Gen::gen(rng), a: Gen::gen(rng) }
    }
}

#[derive(Form, Debug, PartialEq, Clone)]
struct WithBody {
    #[form(header)]
    h: i32,
    #[form(body)]
    inner: Plain,
}
impl Gen for WithBody {
    fn gen(rng: &mut Rng) -> Self {
        WithBody { h: Gen::gen(rng), inner: Gen::gen(rng) }
    }
}

#[derive(Form, Debug, PartialEq, Clone)]
struct BodyVec {
    #[form(body)]
    items: Vec<i32>,
    #[form(header)]
    n: u64,
}
impl Gen for BodyVec {
    fn gen(rng: &mut Rng) -> Self {
        BodyVec { items: Gen::gen(rng), n: Gen::gen(rng) }
    }
}

#[derive(Form, Debug, PartialEq, Clone)]
struct BodyScalar {
    #[form(attr)]
    k: String,
    #[form(body)]
    v: i32,
}
impl Gen for BodyScalar {
    fn gen(rng: &mut Rng) -> Self {
        BodyScalar { k: Gen::gen(rng), v: Gen::gen(rng) }
    }
}

/// A model value as the body of a derived type: the body's attributes follow the tag attribute, its items are the
/// items of the record. Generated are the values for which that is unambiguous: a scalar, or a record that has an
/// attribute, or two or more items, or one slot (a record with no attribute and one plain item is written exactly as
/// that item on its own, and the empty record as an absent body).
fn body_scalar(rng: &mut Rng) -> Value {
    match rng.below(6) {
        0 => Value::Int32Value(Gen::gen(rng)),
        1 => Value::text(<String as Gen>::gen(rng)),
        2 => Value::BooleanValue(Gen::gen(rng)),
        3 => Value::Int64Value(1 << 40),
        4 => Value::Float64Value(2.5),
        _ => Value::UInt64Value(u64::MAX),
    }
}
fn body_item(rng: &mut Rng) -> Item {
    if rng.below(2) == 0 {
        Item::ValueItem(body_scalar(rng))
    } else {
        Item::Slot(Value::text(*rng.pick(&["a", "b", "key"])), body_scalar(rng))
    }
}
fn body_value(rng: &mut Rng) -> Value {
    match rng.below(6) {
        0 => body_scalar(rng),
        // attributes and exactly one plain item
        1 => Value::Record(vec![Attr::of(*rng.pick(&["attr", "attr2"]))], vec![Item::ValueItem(body_scalar(rng))]),
        2 => Value::Record(vec![Attr::of(("attr", body_scalar(rng)))], vec![body_item(rng)]),
        // one slot
        3 => Value::Record(vec![], vec![Item::Slot(Value::text("k"), body_scalar(rng))]),
        // two or more items, with or without attributes
        4 => Value::Record(vec![], vec![body_item(rng), body_item(rng)]),
        _ => {
            let attrs = (0..rng.below(3)).map(|i| Attr::of(*["x", "y", "z"].get(i as usize).unwrap())).collect();
            let items = (0..rng.range(2, 4)).map(|_| body_item(rng)).collect();
            Value::Record(attrs, items)
        }
    }
}

/// Instants with a whole number of microseconds (what a Timestamp is written as), before and after the epoch.
impl Gen for swimos_model::Timestamp {
    fn gen(rng: &mut Rng) -> Self {
        use chrono::TimeZone;
        let secs = *rng.pick(&[0i64, 1, 1_700_000_000, -1, -86_400, 253_402_300_799]);
        let micros = *rng.pick(&[0u32, 1, 500_000, 999_999, 123_456]);
        chrono::Utc.timestamp_opt(secs, micros * 1000).single().expect("a valid instant").into()
    }
}

#[derive(Form, Debug, PartialEq, Clone)]
struct Stamped {
    at: swimos_model::Timestamp,
    #[form(header)]
    seen: Option<swimos_model::Timestamp>,
}
impl Gen for Stamped {
    fn gen(rng: &mut Rng) -> Self {
        Stamped { at: Gen::gen(rng), seen: Gen::gen(rng) }
    }
}

#[derive(Form, Debug, PartialEq, Clone)]
struct HeaderBodyVec {
    #[form(header_body)]
    v: Vec<i32>,
    a: i32,
}
impl Gen for HeaderBodyVec {
    fn gen(rng: &mut Rng) -> Self {
        HeaderBodyVec { v: Gen::gen(rng), a: Gen::gen(rng) }
    }
}

#[derive(Form, Debug, PartialEq, Clone)]
struct HeaderBodyMap {
    #[form(header_body)]
    m: HashMap<String, i32>,
    a: i32,
}
impl Gen for HeaderBodyMap {
    fn gen(rng: &mut Rng) -> Self {
        HeaderBodyMap { m: Gen::gen(rng), a: Gen::gen(rng) }
    }
}

#[derive(Form, Debug, PartialEq, Clone)]
struct HeaderBodyTuple {
    #[form(header_body)]
    t: Tuple,
    a: i32,
}
impl Gen for HeaderBodyTuple {
    fn gen(rng: &mut Rng) -> Self {
        HeaderBodyTuple { t: Gen::gen(rng), a: Gen::gen(rng) }
    }
}

#[derive(Form, Debug, PartialEq, Clone)]
struct BodyValue {
    #[form(header)]
    n: i32,
    #[form(body)]
    body: Value,
}
impl Gen for BodyValue {
    fn gen(rng: &mut Rng) -> Self {
        BodyValue { n: Gen::gen(rng), body: body_value(rng) }
    }
}

#[derive(Form, Debug, PartialEq, Clone)]
struct AttrBodyValue {
    #[form(attr)]
    a: i32,
    #[form(body)]
    c: Value,
}
impl Gen for AttrBodyValue {
    fn gen(rng: &mut Rng) -> Self {
        AttrBodyValue { a: Gen::gen(rng), c: body_value(rng) }
    }
}

#[derive(Form, Debug, PartialEq, Clone)]
struct Skipper {
    a: i32,
    #[form(skip)]
    s: i32,
    b: String,
}
impl Gen for Skipper {
    fn gen(rng: &mut Rng) -> Self {
        Skipper { a: Gen::gen(rng), s: 0, b: Gen::gen(rng) }
    }
}

#[derive(Form, Debug, PartialEq, Clone)]
struct Tuple(i32, String, Option<bool>);
impl Gen for Tuple {
    fn gen(rng: &mut Rng) -> Self {
        Tuple(Gen::gen(rng), Gen::gen(rng), Gen::gen(rng))
    }
}

#[derive(Form, Debug, PartialEq, Clone)]
struct TupleNamed(#[form(name = "x")] i32, #[form(name = "y")] String);
impl Gen for TupleNamed {
    fn gen(rng: &mut Rng) -> Self {
        TupleNamed(Gen::gen(rng), Gen::gen(rng))
    }
}

#[derive(Form, Debug, PartialEq, Clone)]
#[form(newtype)]
struct Newtype(String);
impl Gen for Newtype {
    fn gen(rng: &mut Rng) -> Self {
        Newtype(Gen::gen(rng))
    }
}

#[derive(Form, Debug, PartialEq, Clone)]
struct Unit;
impl Gen for Unit {
    fn gen(_: &mut Rng) -> Self {
        Unit
    }
}

#[derive(Form, Debug, PartialEq, Clone)]
struct Generic<T, U> {
    v: T,
    w: Vec<U>,
}
impl<T: Gen, U: Gen> Gen for Generic<T, U> {
    fn gen(rng: &mut Rng) -> Self {
        Generic { v: Gen::gen(rng), w: Gen::gen(rng) }
    }
}

#[derive(Form, Debug, PartialEq, Clone)]
#[form(fields_convention = "camel")]
struct Camel {
    first_field: i32,
    second_one_here: String,
}
impl Gen for Camel {
    fn gen(rng: &mut Rng) -> Self {
        Camel { first_field: Gen::gen(rng), second_one_here: Gen::gen(rng) }
    }
}

#[derive(Tag, Debug, PartialEq, Eq, Clone, Copy)]
enum Level {
    Info,
    Warn,
    Trace,
}

#[derive(Form, Debug, PartialEq, Clone)]
struct TagField {
    #[form(tag)]
    level: Level,
    msg: String,
}
impl Gen for TagField {
    fn gen(rng: &mut Rng) -> Self {
        TagField { level: *rng.pick(&[Level::Info, Level::Warn, Level::Trace]), msg: Gen::gen(rng) }
    }
}

#[derive(Form, Debug, PartialEq, Clone)]
enum Shape {
    Nothing,
    #[form(tag = "bee")]
    B {
        x: i32,
    },
    C(i32, String),
    D {
        #[form(header)]
        h: i32,
        #[form(body)]
        b: Vec<String>,
    },
    E {
        #[form(header_body)]
        hb: String,
        #[form(attr)]
        at: bool,
        rest: Option<i64>,
    },
}
impl Gen for Shape {
    fn gen(rng: &mut Rng) -> Self {
        match rng.below(5) {
            0 => Shape::Nothing,
            1 => Shape::B { x: Gen::gen(rng) },
            2 => Shape::C(Gen::gen(rng), Gen::gen(rng)),
            3 => Shape::D { h: Gen::gen(rng), b: Gen::gen(rng) },
            _ => Shape::E { hb: Gen::gen(rng), at: Gen::gen(rng), rest: Gen::gen(rng) },
        }
    }
}

#[derive(Form, Debug, PartialEq, Clone)]
struct Nested {
    p: Plain,
    q: Option<Tagged>,
    m: HashMap<String, Plain>,
    s: Vec<Shape>,
    #[form(header)]
    t: Tuple,
}
impl Gen for Nested {
    fn gen(rng: &mut Rng) -> Self {
        Nested { p: Gen::gen(rng), q: Gen::gen(rng), m: Gen::gen(rng), s: Gen::gen(rng), t: Gen::gen(rng) }
    }
}

// ---------------------------------------------------------------------------------------------
// mutations of a model value (mostly leaving the schema)

fn count_nodes(v: &Value) -> usize {
    match v {
        Value::Record(attrs, items) => {
            1 + attrs.iter().map(|a| count_nodes(&a.value)).sum::<usize>()
                + items
                    .iter()
                    .map(|i| match i {
                        Item::ValueItem(v) => count_nodes(v),
                        Item::Slot(k, v) => count_nodes(k) + count_nodes(v),
                    })
                    .sum::<usize>()
        }
        _ => 1,
    }
}

fn other_scalar(rng: &mut Rng) -> Value {
    match rng.below(8) {
        0 => Value::Extant,
        1 => Value::Int32Value(3),
        2 => Value::Int64Value(1 << 40),
        3 => Value::text("other"),
        4 => Value::BooleanValue(true),
        5 => Value::Float64Value(2.5),
        6 => Value::UInt64Value(u64::MAX),
        _ => Value::Record(vec![], vec![]),
    }
}

/// Apply one mutation at the node with pre-order index `target`.
fn mutate_at(v: &Value, target: &mut isize, rng: &mut Rng) -> Value {
    let here = *target == 0;
    *target -= 1;
    match v {
        Value::Record(attrs, items) if here => {
            let mut attrs = attrs.clone();
            let mut items = items.clone();
            match rng.below(12) {
                0 if !items.is_empty() => {
                    let i = rng.usize_below(items.len());
                    items.remove(i);
                }
                1 if !items.is_empty() => {
                    let i = rng.usize_below(items.len());
                    let it = items[i].clone();
                    items.push(it);
                }
                2 if items.len() > 1 => {
                    let i = rng.usize_below(items.len() - 1);
                    items.swap(i, i + 1);
                }
                3 if !items.is_empty() => {
                    let i = rng.usize_below(items.len());
                    items[i] = match &items[i] {
                        Item::Slot(_, v) => Item::Slot(Value::text("unexpected"), v.clone()),
                        Item::ValueItem(v) => Item::Slot(Value::text("a"), v.clone()),
                    };
                }
                4 if !items.is_empty() => {
                    let i = rng.usize_below(items.len());
                    items[i] = match &items[i] {
                        Item::Slot(_, v) => Item::ValueItem(v.clone()),
                        Item::ValueItem(v) => Item::ValueItem(Value::Record(vec![], vec![Item::ValueItem(v.clone())])),
                    };
                }
                5 => items.push(Item::Slot(Value::text("extra"), other_scalar(rng))),
                6 => items.push(Item::ValueItem(other_scalar(rng))),
                7 if !attrs.is_empty() => {
                    let i = rng.usize_below(attrs.len());
                    attrs.remove(i);
                }
                8 if !attrs.is_empty() => {
                    let i = rng.usize_below(attrs.len());
                    attrs[i] = Attr::of((Text::new("Other"), attrs[i].value.clone()));
                }
                9 => attrs.push(Attr::of((Text::new("more"), other_scalar(rng)))),
                10 if attrs.len() > 1 => {
                    let i = rng.usize_below(attrs.len() - 1);
                    attrs.swap(i, i + 1);
                }
                11 if !attrs.is_empty() => {
                    let i = rng.usize_below(attrs.len());
                    let a = attrs[i].clone();
                    attrs.insert(i, a);
                }
                _ => return other_scalar(rng),
            }
            Value::Record(attrs, items)
        }
        Value::Record(attrs, items) => Value::Record(
            attrs.iter().map(|a| Attr::of((a.name.clone(), mutate_at(&a.value, target, rng)))).collect(),
            items
                .iter()
                .map(|i| match i {
                    Item::ValueItem(v) => Item::ValueItem(mutate_at(v, target, rng)),
                    Item::Slot(k, v) => {
                        let k2 = mutate_at(k, target, rng);
                        Item::Slot(k2, mutate_at(v, target, rng))
                    }
                })
                .collect(),
        ),
        _ if here => match (v, rng.below(4)) {
            (Value::Int32Value(n), 0) => Value::Int64Value(*n as i64),
            (Value::Int32Value(n), 1) if *n >= 0 => Value::UInt64Value(*n as u64),
            (Value::Int32Value(n), 2) => Value::Float64Value(*n as f64),
            (Value::Int64Value(n), 0) if *n >= 0 => Value::UInt64Value(*n as u64),
            (Value::UInt64Value(n), 0) if *n <= i64::MAX as u64 => Value::Int64Value(*n as i64),
            (Value::Text(t), 0) => Value::text(format!("{}x", t)),
            (Value::Float64Value(x), 0) if x.fract() == 0.0 && x.abs() < 1e9 => Value::Int32Value(*x as i32),
            _ => other_scalar(rng),
        },
        ow => ow.clone(),
    }
}

struct Ctx {
    rng: Rng,
    kinds: BTreeMap<String, u64>,
    failures: Vec<String>,
    evals: u64,
    accepted_mutants: u64,
    rejected_mutants: u64,
}

fn both_paths<T: Form + Debug + PartialEq>(text: &str) -> (Result<T, String>, Result<T, String>) {
    let direct = parse_recognize::<T>(Span::new(text), false).map_err(|e| format!("{:?}", e));
    let via_model = parse_recognize::<Value>(Span::new(text), false)
        .map_err(|e| format!("{:?}", e))
        .and_then(|v| T::try_from_value(&v).map_err(|e| format!("{:?}", e)));
    (direct, via_model)
}

/// Whether the compact text of a value denotes the value's model (C09's business where it does not).
fn text_faithful_pre<T: Form>(x: &T) -> bool {
    let text = print_recon_compact(x).to_string();
    parse_recognize::<Value>(Span::new(&text), false).ok().as_ref() == Some(&x.as_value())
}

fn battery<T: Form + Gen + Debug + PartialEq + Clone>(ctx: &mut Ctx, name: &str, n: usize) {
    for _ in 0..n {
        let x = T::gen(&mut ctx.rng);
        ctx.evals += 1;
        *ctx.kinds.entry(format!("instance:{}", name)).or_default() += 1;
        let model = x.as_value();
        let r = catch(std::panic::AssertUnwindSafe(|| -> Result<(), String> {
            let back = T::try_from_value(&model).map_err(|e| format!("{:?}", e));
            if back.as_ref().ok() != Some(&x) {
                return Err(format!("roundtrip-model {} {:?}: model {} converts back to {:?}", name, x, print_recon_compact(&model), back));
            }
            let moved = T::try_convert(model.clone()).map_err(|e| format!("{:?}", e));
            if moved.as_ref().ok() != Some(&x) {
                return Err(format!("roundtrip-model {} {:?}: model {} try_convert gives {:?}", name, x, print_recon_compact(&model), moved));
            }
            if x.clone().into_value() != model {
                return Err(format!("roundtrip-model {} {:?}: into_value {:?} differs from as_value {:?}", name, x, x.clone().into_value(), model));
            }
            let bytes = to_msgpack(&x).map_err(|e| format!("roundtrip-msgpack {} {:?}: writing as MessagePack failed: {}", name, x, e))?;
            let back: Result<T, String> = from_msgpack(&bytes);
            if back.as_ref().ok() != Some(&x) {
                return Err(format!("roundtrip-msgpack {} {:?}: MessagePack {:02x?} reads back as {:?}", name, x, bytes, back));
            }
            let as_model: Result<Value, String> = from_msgpack(&bytes);
            if as_model.as_ref().ok() != Some(&model) {
                return Err(format!("roundtrip-msgpack {} {:?}: MessagePack read as a model value gives {:?}, the model is {:?}", name, x, as_model, model));
            }
            let text = print_recon_compact(&x).to_string();
            let model_text = print_recon_compact(&model).to_string();
            if text != model_text {
                return Err(format!("print {} {:?}: printed directly {:?}, through the model {:?}", name, x, text, model_text));
            }
            // a second value read with the decoder that read the first (every typed channel reads value after value
            // with one recognizer, reset in between)
            {
                use tokio_util::codec::{Decoder, Encoder};
                let y = T::gen(&mut Rng::new(text.len() as u64 * 31 + 7));
                let mut frames = BytesMut::new();
                let mut enc = swimos_recon::WithLenReconEncoder;
                enc.encode(&x, &mut frames).map_err(|e| format!("{:?}", e))?;
                enc.encode(&y, &mut frames).map_err(|e| format!("{:?}", e))?;
                let mut dec = swimos_recon::WithLenRecognizerDecoder::new(T::make_recognizer());
                let first = dec.decode(&mut frames).map_err(|e| format!("{:?}", e));
                let second = dec.decode(&mut frames).map_err(|e| format!("{:?}", e));
                let first_ok = matches!(&first, Ok(Some(v)) if *v == x);
                // (as for the one-shot paths: only where the printed text is faithful to the model)
                let y_text = print_recon_compact(&y).to_string();
                let y_faithful = parse_recognize::<Value>(Span::new(&y_text), false).ok().as_ref() == Some(&y.as_value());
                let second_ok = matches!(&second, Ok(Some(v)) if *v == y);
                if (text_faithful_pre(&x) && !first_ok) || (first_ok && y_faithful && !second_ok) {
                    return Err(format!("decoder-reuse {}: frames of {:?} and {:?} read with one decoder give {:?} and {:?}", name, x, y, first, second));
                }
            }
            let (direct, via_model) = both_paths::<T>(&text);
            // (whether the text reads back as the same model value is the business of C09: a record whose only
            // item is absent is printed as `{}`)
            let text_faithful = parse_recognize::<Value>(Span::new(&text), false).ok().as_ref() == Some(&model);
            if direct != via_model || (text_faithful && direct.as_ref().ok() != Some(&x)) {
                return Err(format!("roundtrip-recon {} {:?}: Recon {:?} reads directly as {:?}, through the model as {:?}", name, x, text, direct, via_model));
            }
            Ok(())
        }));
        match r {
            Ok(Ok(())) => {}
            Ok(Err(e)) => ctx.failures.push(e),
            Err(m) => ctx.failures.push(format!("panic {} {:?}: {}", name, x, m)),
        }
        // mutated inputs: the two reading paths agree
        let nodes = count_nodes(&model);
        for _ in 0..4 {
            let mut target = ctx.rng.usize_below(nodes) as isize;
            let mut m = mutate_at(&model, &mut target, &mut ctx.rng);
            if ctx.rng.below(4) == 0 {
                let nodes2 = count_nodes(&m);
                let mut t2 = ctx.rng.usize_below(nodes2) as isize;
                m = mutate_at(&m, &mut t2, &mut ctx.rng);
            }
            let text = print_recon_compact(&m).to_string();
            ctx.evals += 1;
            *ctx.kinds.entry(format!("mutant:{}", name)).or_default() += 1;
            let r = catch(std::panic::AssertUnwindSafe(|| both_paths::<T>(&text)));
            match r {
                Ok((direct, via)) => {
                    let agree = match (&direct, &via) {
                        (Ok(a), Ok(b)) => a == b,
                        (Err(_), Err(_)) => true,
                        _ => false,
                    };
                    if direct.is_ok() {
                        ctx.accepted_mutants += 1;
                    } else {
                        ctx.rejected_mutants += 1;
                    }
                    if !agree {
                        ctx.failures.push(format!("paths-disagree {} on {:?}: directly {:?}, through the model {:?}", name, text, direct, via));
                    }
                }
                Err(msg) => ctx.failures.push(format!("panic {} reading {:?}: {}", name, text, msg)),
            }
        }
    }
}

fn main() {
    let args = parse_args();
    silence_panics();
    let mut ctx = Ctx {
        rng: Rng::new(args.seed ^ 0xc16d),
        kinds: BTreeMap::new(),
        failures: vec![],
        evals: 0,
        accepted_mutants: 0,
        rejected_mutants: 0,
    };
    let n = (args.cases / 20).max(2);
    battery::<Plain>(&mut ctx, "Plain", n);
    battery::<Tagged>(&mut ctx, "Tagged", n);
    battery::<WithHeader>(&mut ctx, "WithHeader", n);
    battery::<WithHeaderBody>(&mut ctx, "WithHeaderBody", n);
    battery::<OnlyHeaderBody>(&mut ctx, "OnlyHeaderBody", n);
    battery::<OptHeader>(&mut ctx, "OptHeader", 2 * n);
    battery::<OnlyOptHeader>(&mut ctx, "OnlyOptHeader", n);
    battery::<OptHeaderWithBody>(&mut ctx, "OptHeaderWithBody", 2 * n);
    battery::<OptAttr>(&mut ctx, "OptAttr", n);
    battery::<OptHeaderBody>(&mut ctx, "OptHeaderBody", n);
    battery::<WithAttr>(&mut ctx, "WithAttr", n);
    battery::<WithBody>(&mut ctx, "WithBody", n);
    battery::<BodyVec>(&mut ctx, "BodyVec", n);
    battery::<BodyScalar>(&mut ctx, "BodyScalar", n);
    battery::<swimos_model::Timestamp>(&mut ctx, "Timestamp", n);
    battery::<Stamped>(&mut ctx, "Stamped", n);
    battery::<HeaderBodyVec>(&mut ctx, "HeaderBodyVec", n);
    battery::<HeaderBodyMap>(&mut ctx, "HeaderBodyMap", n);
    battery::<HeaderBodyTuple>(&mut ctx, "HeaderBodyTuple", n);
    battery::<BodyValue>(&mut ctx, "BodyValue", 2 * n);
    battery::<AttrBodyValue>(&mut ctx, "AttrBodyValue", 2 * n);
    battery::<Skipper>(&mut ctx, "Skipper", n);
    battery::<Tuple>(&mut ctx, "Tuple", n);
    battery::<TupleNamed>(&mut ctx, "TupleNamed", n);
    battery::<Newtype>(&mut ctx, "Newtype", n);
    battery::<Unit>(&mut ctx, "Unit", n);
    battery::<Generic<i32, String>>(&mut ctx, "Generic<i32,String>", n);
    battery::<Generic<Plain, Option<i64>>>(&mut ctx, "Generic<Plain,Option<i64>>", n);
    battery::<Camel>(&mut ctx, "Camel", n);
    battery::<TagField>(&mut ctx, "TagField", n);
    battery::<Shape>(&mut ctx, "Shape", 2 * n);
    battery::<Nested>(&mut ctx, "Nested", 2 * n);

    ctx.failures.sort();
    ctx.failures.dedup();
    std::fs::create_dir_all(&args.out).unwrap();
    std::fs::write(std::path::Path::new(&args.out).join("failures.txt"), ctx.failures.join("\n")).unwrap();
    let mut classes: BTreeMap<String, u64> = BTreeMap::new();
    for f in &ctx.failures {
        let mut it = f.split(' ');
        let k = format!("{} {}", it.next().unwrap_or(""), it.next().unwrap_or(""));
        *classes.entry(k).or_default() += 1;
    }
    ctx.kinds.insert("mutants_accepted".into(), ctx.accepted_mutants);
    ctx.kinds.insert("mutants_rejected".into(), ctx.rejected_mutants);
    let meta = J::obj(vec![
        ("evaluations", J::I(ctx.evals as i128)),
        ("distinct_nontrivial", J::I((ctx.accepted_mutants + ctx.rejected_mutants) as i128)),
        ("rule", J::s("derived battery on the real code: model / MessagePack / Recon round trips of generated instances; both reading paths on mutated inputs")),
        ("structures", J::counts(&ctx.kinds)),
        ("failure_classes", J::counts(&classes)),
        ("samples", J::A(vec![])),
        ("direct_failures", J::A(ctx.failures.iter().take(40).map(|f| J::s(f.chars().take(600).collect::<String>())).collect())),
        ("direct_failure_count", J::I(ctx.failures.len() as i128)),
    ]);
    write_meta(&args.out, "meta.json", &meta);
}
