//! C16, the integer Form types against Model/FormInt.v: i32, i64, u32, u64, usize, NonZeroUsize, BigInt, BigUint read
//! from literal-like texts directly and by way of the model, from numeric Values of every kind, and written to the model
//! and to MessagePack and read back (also as each of the other types).
use bytes::{BufMut, BytesMut};
use num_bigint::{BigInt, BigUint};
use std::collections::BTreeMap;
use std::num::NonZeroUsize;
use swimos_form::read::StructuralReadable;
use swimos_form::write::StructuralWritable;
use swimos_form::Form;
use swimos_model::Value;
use swimos_msgpack::{read_from_msg_pack, MsgPackInterpreter};
use swimos_recon::parser::{parse_recognize, Span};
use vcore::*;

#[path = "../numgen.rs"]
mod numgen;
use numgen::*;

fn cps(s: &str) -> String {
    coq_list(s.chars().map(|c| (c as u32).to_string()))
}
fn zb(z: &BigInt) -> String {
    format!("({})%Z", z)
}
fn oz(o: &Option<BigInt>) -> String {
    match o {
        Some(z) => format!("(Some {})", zb(z)),
        None => "None".into(),
    }
}

fn to_msgpack<T: StructuralWritable>(v: &T) -> Result<Vec<u8>, String> {
    let mut buffer = BytesMut::new();
    let mut writer = (&mut buffer).writer();
    v.write_with(MsgPackInterpreter::new(&mut writer)).map_err(|e| format!("{:?}", e))?;
    Ok(buffer.to_vec())
}
fn from_msgpack<T: StructuralReadable>(bytes: &[u8]) -> Option<T> {
    let mut b = bytes::Bytes::from(bytes.to_vec());
    read_from_msg_pack::<T, _>(&mut b).ok()
}

/// One integer Form type: its code in the model, conversions to and from the mathematical integer.
trait IntTy: Form + Clone + std::fmt::Debug + PartialEq {
    const CODE: u8;
    const NAME: &'static str;
    fn to_big(&self) -> BigInt;
    fn of_big(z: &BigInt) -> Option<Self>;
}
macro_rules! int_ty {
    ($t:ty, $code:expr, $name:expr) => {
        impl IntTy for $t {
            const CODE: u8 = $code;
            const NAME: &'static str = $name;
            fn to_big(&self) -> BigInt {
                BigInt::from(self.clone())
            }
            fn of_big(z: &BigInt) -> Option<Self> {
                <$t>::try_from(z.clone()).ok()
            }
        }
    };
}
int_ty!(i32, 0, "i32");
int_ty!(i64, 1, "i64");
int_ty!(u32, 2, "u32");
int_ty!(u64, 3, "u64");
int_ty!(usize, 4, "usize");
int_ty!(BigInt, 6, "BigInt");
int_ty!(BigUint, 7, "BigUint");
impl IntTy for NonZeroUsize {
    const CODE: u8 = 5;
    const NAME: &'static str = "NonZeroUsize";
    fn to_big(&self) -> BigInt {
        BigInt::from(self.get())
    }
    fn of_big(z: &BigInt) -> Option<Self> {
        usize::try_from(z.clone()).ok().and_then(NonZeroUsize::new)
    }
}

fn kind_of(v: &Value) -> u8 {
    match v {
        Value::Int32Value(_) => 0,
        Value::Int64Value(_) => 1,
        Value::UInt32Value(_) => 2,
        Value::UInt64Value(_) => 3,
        Value::BigInt(_) => 4,
        Value::BigUint(_) => 5,
        _ => 9,
    }
}

struct Ctx {
    w: CaseWriter,
    kinds: BTreeMap<String, u64>,
    failures: Vec<String>,
    nontrivial: u64,
}

fn text_case<T: IntTy>(cx: &mut Ctx, s: &str, family: &str) {
    let r = catch(std::panic::AssertUnwindSafe(|| {
        let direct: Option<BigInt> = parse_recognize::<T>(Span::new(s), false).ok().map(|x| x.to_big());
        let via: Option<BigInt> = parse_recognize::<Value>(Span::new(s), false).ok().and_then(|v| T::try_from_value(&v).ok()).map(|x| x.to_big());
        (direct, via)
    }));
    match r {
        Ok((direct, via)) => {
            *cx.kinds.entry(format!("text:{}:{}:{}", family, T::NAME, if direct.is_some() { "accepted" } else { "refused" })).or_default() += 1;
            if direct != via {
                cx.failures.push(format!("{} from {:?}: read directly {:?}, by way of the model {:?}", T::NAME, s, direct, via));
            }
            if direct.is_some() {
                cx.nontrivial += 1;
            }
            cx.w.push(format!("FCaseText {} {} {} {}", T::CODE, cps(s), oz(&direct), oz(&via)), format!("{} from {:?}: directly {:?}, via the model {:?}", T::NAME, s, direct, via));
        }
        Err(m) => cx.failures.push(format!("{} from {:?} panicked: {}", T::NAME, s, m)),
    }
}

fn value_case<T: IntTy>(cx: &mut Ctx, v: &Value, z: &BigInt) {
    match catch(std::panic::AssertUnwindSafe(|| T::try_from_value(v).ok().map(|x| x.to_big()))) {
        Ok(r) => {
            *cx.kinds.entry(format!("value:{}:{}", T::NAME, if r.is_some() { "accepted" } else { "refused" })).or_default() += 1;
            // try_from_value and try_convert (the consuming conversion) must agree
            let r2 = T::try_convert(v.clone()).ok().map(|x| x.to_big());
            if r != r2 {
                cx.failures.push(format!("{} from {:?}: try_from_value {:?}, try_convert {:?}", T::NAME, v, r, r2));
            }
            cx.w.push(format!("FCaseValue {} {} {} {}", T::CODE, kind_of(v), zb(z), oz(&r)), format!("{} from the value {:?}: {:?}", T::NAME, v, r));
        }
        Err(m) => cx.failures.push(format!("{} from {:?} panicked: {}", T::NAME, v, m)),
    }
}

fn write_case<T: IntTy>(cx: &mut Ctx, z: &BigInt) {
    let x = match T::of_big(z) {
        Some(x) => x,
        None => return,
    };
    let r = catch(std::panic::AssertUnwindSafe(|| {
        let model = x.as_value();
        let model2 = x.clone().into_value();
        let back_model = T::try_from_value(&model).ok();
        let bytes = to_msgpack(&x);
        (model, model2, back_model, bytes)
    }));
    match r {
        Ok((model, model2, back_model, Ok(bytes))) => {
            if model != model2 {
                cx.failures.push(format!("{} {:?}: as_value {:?}, into_value {:?}", T::NAME, x, model, model2));
            }
            if back_model.as_ref() != Some(&x) {
                cx.failures.push(format!("{} {:?}: the model {:?} converts back to {:?}", T::NAME, x, model, back_model));
            }
            // the bytes the typed value writes are the bytes its model writes
            match to_msgpack(&model) {
                Ok(b2) if b2 == bytes => {}
                other => cx.failures.push(format!("{} {:?}: MessagePack of the value {:02x?}, of its model {:02x?}", T::NAME, x, bytes, other)),
            }
            let back: Option<BigInt> = from_msgpack::<T>(&bytes).map(|y| y.to_big());
            if back.as_ref() != Some(z) {
                cx.failures.push(format!("{} {:?}: MessagePack {:02x?} reads back as {:?}", T::NAME, x, bytes, back));
            }
            *cx.kinds.entry(format!("write:{}", T::NAME)).or_default() += 1;
            cx.nontrivial += 1;
            cx.w.push(
                format!("FCaseWrite {} {} {} {} {}", T::CODE, zb(z), kind_of(&model), coq_list(bytes.iter().map(|b| b.to_string())), oz(&back)),
                format!("{} {:?}: model {:?}, MessagePack {:02x?}, read back {:?}", T::NAME, x, model, bytes, back),
            );
            // the same bytes read as each of the other types
            across::<T, i32>(cx, z, &bytes);
            across::<T, i64>(cx, z, &bytes);
            across::<T, u32>(cx, z, &bytes);
            across::<T, u64>(cx, z, &bytes);
            across::<T, usize>(cx, z, &bytes);
            across::<T, NonZeroUsize>(cx, z, &bytes);
            across::<T, BigInt>(cx, z, &bytes);
            across::<T, BigUint>(cx, z, &bytes);
        }
        Ok((_, _, _, Err(e))) => cx.failures.push(format!("{} {:?}: writing as MessagePack failed: {}", T::NAME, x, e)),
        Err(m) => cx.failures.push(format!("{} {:?} panicked: {}", T::NAME, x, m)),
    }
}

/// Bytes written for a value of T, read as U: accepted exactly when U holds the number (oracle, real code only; the
/// model states the same as a theorem for the fixed-width types).
fn across<T: IntTy, U: IntTy>(cx: &mut Ctx, z: &BigInt, bytes: &[u8]) {
    let got: Option<BigInt> = from_msgpack::<U>(bytes).map(|y| y.to_big());
    let expected: Option<BigInt> = U::of_big(z).map(|y| y.to_big());
    *cx.kinds.entry(format!("across:{}", if got.is_some() { "accepted" } else { "refused" })).or_default() += 1;
    if got != expected {
        cx.failures.push(format!("MessagePack {:02x?} written for the {} {} read as {}: {:?}, the type {} the number", bytes, T::NAME, z, U::NAME, got, if expected.is_some() { "holds" } else { "does not hold" }));
    }
}

macro_rules! all_types {
    ($f:ident, $cx:expr, $($a:expr),*) => {
        $f::<i32>($cx, $($a),*);
        $f::<i64>($cx, $($a),*);
        $f::<u32>($cx, $($a),*);
        $f::<u64>($cx, $($a),*);
        $f::<usize>($cx, $($a),*);
        $f::<NonZeroUsize>($cx, $($a),*);
        $f::<BigInt>($cx, $($a),*);
        $f::<BigUint>($cx, $($a),*);
    };
}

fn main() {
    let args = parse_args();
    silence_panics();
    let mut rng = Rng::new(args.seed ^ 0xc16_1171);
    let mut cx = Ctx {
        w: CaseWriter::new("From SwimV Require Import Model.FormInt.\nOpen Scope N_scope.", "fcase", &["form_int_corr_bad"], args.shards),
        kinds: BTreeMap::new(),
        failures: vec![],
        nontrivial: 0,
    };

    // ---- texts ----
    for s in [
        "0", "-0", "00", "007", "-007", "0x10", "-0x10", "0b101", "1e5", "1.5", "1.", "-", "--1", "1 2", "+1", "", " ", "x10", "abc", "true", "\"12\"", "{1}", "@a 1", "%AQID",
        "2147483647", "2147483648", "-2147483648", "-2147483649", "4294967295", "4294967296", "9223372036854775807", "9223372036854775808", "-9223372036854775808",
        "-9223372036854775809", "18446744073709551615", "18446744073709551616", "-18446744073709551616", "0xffffffffffffffff", "0x10000000000000000", " 12 ", "\t-3\n",
        "340282366920938463463374607431768211456", "-340282366920938463463374607431768211456",
    ] {
        all_types!(text_case, &mut cx, s, "corpus");
    }
    for z in boundaries() {
        let s = spell(&mut rng, &z);
        all_types!(text_case, &mut cx, &s, "boundary");
    }
    for i in 0..args.cases {
        let z = random_int(&mut rng);
        let mut s = spell(&mut rng, &z);
        let family = if i % 4 == 0 {
            s = damage(&mut rng, &s);
            "damaged"
        } else {
            "spelled"
        };
        all_types!(text_case, &mut cx, &s, family);
    }

    // ---- values of every kind that holds the number, read as every type ----
    let mut ints = boundaries();
    for _ in 0..args.cases / 2 {
        ints.push(random_int(&mut rng));
    }
    for z in &ints {
        let mut vals: Vec<Value> = vec![Value::BigInt(z.clone())];
        if let Ok(n) = i32::try_from(z) {
            vals.push(Value::Int32Value(n));
        }
        if let Ok(n) = i64::try_from(z) {
            vals.push(Value::Int64Value(n));
        }
        if let Ok(n) = u32::try_from(z) {
            vals.push(Value::UInt32Value(n));
        }
        if let Ok(n) = u64::try_from(z) {
            vals.push(Value::UInt64Value(n));
        }
        if let Ok(n) = BigUint::try_from(z.clone()) {
            vals.push(Value::BigUint(n));
        }
        for v in &vals {
            all_types!(value_case, &mut cx, v, z);
        }
    }

    // ---- values of each type written to the model and to MessagePack ----
    for z in &ints {
        all_types!(write_case, &mut cx, z);
    }

    cx.w.finish(&args.out, "cases").unwrap();
    let meta = J::obj(vec![
        ("evaluations", J::I(cx.w.len() as i128)),
        ("distinct_nontrivial", J::I(cx.nontrivial as i128)),
        ("rule", J::s("the integer Form types i32, i64, u32, u64, usize, NonZeroUsize, BigInt, BigUint against Model/FormInt.v: literal-like texts (corpus with the range boundaries of every type, non-numbers and floats; spellings in decimal / hex / binary with leading zeros and blanks of boundary and random integers up to 2^200; a quarter damaged by one character) read as every type directly and by way of the model (the two must agree: direct oracle; and equal the model's answers: correspondence); numeric Values of every kind that holds the number converted to every type (try_from_value and try_convert); every value of every type written to the model (as_value = into_value, converts back) and to MessagePack (bytes = the model's bytes = the model of the codec; read back unchanged; read as each of the other seven types: accepted exactly when that type holds the number)")),
        ("structures", J::counts(&cx.kinds)),
        ("samples", J::A(vec![])),
        ("direct_failures", J::A(cx.failures.iter().take(40).map(|f| J::s(f.chars().take(500).collect::<String>())).collect())),
        ("direct_failure_count", J::I(cx.failures.len() as i128)),
    ]);
    write_meta(&args.out, "meta.json", &meta);
}
