//! C16, records on the MessagePack wire: the real writer / reader for model values against Model/MsgPack.v.

use std::collections::BTreeMap;

use bytes::{BufMut, BytesMut};
use num_bigint::{BigInt, BigUint};
use swimos_form::write::StructuralWritable;
use swimos_model::{Attr, Blob, Item, Text, Value};
use swimos_msgpack::{read_from_msg_pack, MsgPackInterpreter, MsgPackReadError};
use vcore::*;

fn to_msgpack(v: &Value) -> Result<Vec<u8>, String> {
    let mut buffer = BytesMut::new();
    let mut writer = (&mut buffer).writer();
    v.write_with(MsgPackInterpreter::new(&mut writer)).map_err(|e| format!("{:?}", e))?;
    Ok(buffer.to_vec())
}

fn gen_scalar(rng: &mut Rng) -> Value {
    match rng.below(9) {
        0 => Value::Extant,
        1 => Value::BooleanValue(rng.below(2) == 0),
        2 => Value::Int32Value(*rng.pick(&[0, 1, -1, 127, 128, -32, -33, 65536, i32::MIN])),
        3 => Value::Int64Value(*rng.pick(&[0, -1, i64::MAX, i64::MIN, 1 << 40])),
        4 => Value::UInt64Value(*rng.pick(&[0, u64::MAX, 1 << 63])),
        5 => Value::Float64Value(*rng.pick(&[0.0, -1.5, 1e300])),
        6 => Value::BigInt(BigInt::from(*rng.pick(&[0i64, 5, -5, i64::MIN])) * BigInt::from(*rng.pick(&[1i64, 1 << 40]))),
        7 => Value::Text(Text::new(*rng.pick(&["", "a", "name", "é", "0123456789012345678901234567890123456789"]))),
        _ => Value::Data(Blob::from_vec((0..*rng.pick(&[0usize, 1, 3])).map(|_| rng.below(256) as u8).collect())),
    }
}

fn gen_value(rng: &mut Rng, depth: u32) -> Value {
    if depth == 0 || rng.below(3) == 0 {
        return gen_scalar(rng);
    }
    let nattrs = *rng.pick(&[0usize, 0, 1, 2, 3, 16, 17]);
    let nitems = *rng.pick(&[0usize, 1, 2, 3, 4, 15, 16, 17]);
    let kind = rng.below(4);
    let small = nattrs > 4 || nitems > 4;
    let sub = |rng: &mut Rng| if small { gen_scalar(rng) } else { gen_value(rng, depth - 1) };
    let attrs = (0..nattrs).map(|i| Attr::of((Text::new(&format!("a{}", i)), sub(rng)))).collect();
    let items = (0..nitems)
        .map(|_| {
            let slot = match kind {
                0 => false,
                1 => true,
                _ => rng.below(2) == 0,
            };
            if slot {
                Item::Slot(sub(rng), sub(rng))
            } else {
                Item::ValueItem(sub(rng))
            }
        })
        .collect();
    Value::Record(attrs, items)
}

fn coq_scalar(v: &Value) -> Option<String> {
    let int = |n: i128| if n >= 0 { format!("(MPos {})", n) } else { format!("(MNeg {})", -n) };
    Some(match v {
        Value::Extant => "MNil".to_string(),
        Value::BooleanValue(b) => format!("(MBool {})", b),
        Value::Int32Value(n) => int(*n as i128),
        Value::Int64Value(n) => int(*n as i128),
        Value::UInt32Value(n) => int(*n as i128),
        Value::UInt64Value(n) => int(*n as i128),
        Value::Float64Value(x) => format!("(MF64 {})", x.to_bits()),
        Value::BigInt(n) => format!("(MBigInt {} {})", n.sign() == num_bigint::Sign::Minus, n.magnitude()),
        Value::BigUint(n) => format!("(MBigUint {})", n),
        Value::Text(t) => format!("(MStr {})", coq_bytes(t.as_str().as_bytes())),
        Value::Data(b) => format!("(MBin {})", coq_bytes(b.as_ref())),
        Value::Record(..) => return None,
    })
}

fn coq_value(v: &Value) -> String {
    match v {
        Value::Record(attrs, items) => format!(
            "(VR {} {})",
            coq_list(attrs.iter().map(|a| format!("({}, {})", coq_bytes(a.name.as_str().as_bytes()), coq_value(&a.value)))),
            coq_list(items.iter().map(|i| match i {
                Item::ValueItem(x) => format!("(None, {})", coq_value(x)),
                Item::Slot(k, x) => format!("(Some {}, {})", coq_value(k), coq_value(x)),
            }))
        ),
        s => format!("(VS {})", coq_scalar(s).unwrap()),
    }
}

fn main() {
    let args = parse_args();
    silence_panics();
    let mut rng = Rng::new(args.seed ^ 0xc16a);
    let mut w = CaseWriter::new(
        "From SwimV Require Import Lib.Hex Model.MsgPack.\nOpen Scope N_scope.",
        "rcase",
        &["mpr_corr_bad"],
        args.shards.min(200),
    );
    let mut kinds: BTreeMap<String, u64> = BTreeMap::new();
    let mut failures: Vec<String> = vec![];
    let mut nontrivial = 0u64;
    let _ = BigUint::from(0u8);
    for i in 0..args.cases {
        let v = gen_value(&mut rng, if i % 4 == 0 { 3 } else { 2 });
        let bytes = match to_msgpack(&v) {
            Ok(b) => b,
            Err(e) => {
                failures.push(format!("value {:?}: writing as MessagePack failed: {}", v, e));
                continue;
            }
        };
        let term = coq_value(&v);
        if matches!(v, Value::Record(..)) {
            nontrivial += 1;
        }
        *kinds.entry("enc".into()).or_default() += 1;
        w.push(format!("RCaseEnc {} {}", term, coq_bytes(&bytes)), format!("write {:?} -> {}", v, hex_of(&bytes)));
        // the reader on the whole encoding, followed by more input, and cut short
        let mut inputs: Vec<(Vec<u8>, &str)> = vec![(bytes.clone(), "whole")];
        let mut followed = bytes.clone();
        followed.extend_from_slice(&[0xc0]);
        inputs.push((followed, "followed"));
        for _ in 0..3 {
            if bytes.len() > 1 {
                inputs.push((bytes[..1 + rng.usize_below(bytes.len() - 1)].to_vec(), "prefix"));
            }
        }
        for (input, kind) in inputs {
            let r = catch(std::panic::AssertUnwindSafe(|| {
                let mut b = bytes::Bytes::from(input.clone());
                read_from_msg_pack::<Value, _>(&mut b)
            }));
            let (status, val) = match r {
                Ok(Ok(v)) => (0, Some(coq_value(&v))),
                Ok(Err(MsgPackReadError::Incomplete)) => (1, None),
                Ok(Err(MsgPackReadError::StringDecode(_))) => continue,
                Ok(Err(_)) => (2, None),
                Err(m) => {
                    failures.push(format!("reading the bytes {} as MessagePack panicked: {}", hex_of(&input), m));
                    continue;
                }
            };
            *kinds.entry(format!("dec_{}_{}", kind, status)).or_default() += 1;
            w.push(format!("RCaseDec {} {} {}", coq_bytes(&input), status, coq_option(val.clone())), format!("read {} -> status {}", hex_of(&input), status));
        }
    }
    // long bodies: the 16-bit / 32-bit length headers (65536 entries), by rule (Model/MsgPack.v big_value)
    let sizes: &[usize] = if args.tier == "thorough" { &[255, 256, 65535, 65536, 65537, 70001] } else { &[65535, 65536] };
    for kind in 0..6u32 {
        for &n in sizes {
            let small = |i: usize| Value::Int32Value((i % 300) as i32);
            let v = match kind {
                0 => Value::Record(vec![], (0..n).map(|i| Item::ValueItem(small(i))).collect()),
                1 => Value::Record(vec![], (0..n).map(|i| Item::Slot(Value::Int32Value(i as i32), small(i))).collect()),
                2 => Value::Record(
                    vec![],
                    (0..n).map(|i| if i % 2 == 0 { Item::Slot(Value::Int32Value(i as i32), small(i)) } else { Item::ValueItem(small(i)) }).collect(),
                ),
                3 => Value::Record((0..n).map(|_| Attr::of((Text::new("a"), Value::Extant))).collect(), vec![]),
                4 => Value::Text(Text::new(&(0..n).map(|i| (97 + (i % 26) as u8) as char).collect::<String>())),
                _ => Value::Data(Blob::from_vec((0..n).map(|i| (i % 256) as u8).collect())),
            };
            let bytes = match to_msgpack(&v) {
                Ok(b) => b,
                Err(e) => {
                    failures.push(format!("big value kind {} n {}: writing as MessagePack failed: {}", kind, n, e));
                    continue;
                }
            };
            let sum = bytes.iter().fold((0u64, 0u64), |(a, s), b| (a + *b as u64, s + a + *b as u64)).1;
            *kinds.entry(format!("big_kind{}", kind)).or_default() += 1;
            nontrivial += 1;
            w.push(format!("RCaseBig {} {} {} {}", kind, n, bytes.len(), sum), format!("write big_value {} {} -> {} bytes", kind, n, bytes.len()));
            // the reader must give the value back (the model's round-trip theorem; its decoder is not run on these)
            let r = catch(std::panic::AssertUnwindSafe(|| {
                let mut b = bytes::Bytes::from(bytes.clone());
                read_from_msg_pack::<Value, _>(&mut b)
            }));
            match r {
                Ok(Ok(back)) if back == v => {}
                Ok(Ok(_)) => failures.push(format!("big value kind {} with {} entries: read back as a different Value", kind, n)),
                Ok(Err(e)) => failures.push(format!("big value kind {} with {} entries: reading its own encoding failed: {:?}", kind, n, e)),
                Err(m) => failures.push(format!("big value kind {} with {} entries: reading panicked: {}", kind, n, m)),
            }
            // typed targets
            if kind == 0 {
                let r = catch(std::panic::AssertUnwindSafe(|| {
                    let mut b = bytes::Bytes::from(bytes.clone());
                    read_from_msg_pack::<Vec<i32>, _>(&mut b)
                }));
                if !matches!(&r, Ok(Ok(xs)) if xs.len() == n && xs.iter().enumerate().all(|(i, x)| *x == (i % 300) as i32)) {
                    failures.push(format!("Vec<i32> with {} entries: not read back from its own encoding: {:?}", n, r.map(|x| x.map(|v| v.len()))));
                }
            }
            if kind == 1 {
                let r = catch(std::panic::AssertUnwindSafe(|| {
                    let mut b = bytes::Bytes::from(bytes.clone());
                    read_from_msg_pack::<std::collections::HashMap<i32, i32>, _>(&mut b)
                }));
                if !matches!(&r, Ok(Ok(m)) if m.len() == n && m.iter().all(|(k, x)| *x == (*k as usize % 300) as i32)) {
                    failures.push(format!("HashMap<i32,i32> with {} entries: not read back from its own encoding: {:?}", n, r.map(|x| x.map(|v| v.len()))));
                }
            }
        }
    }
    w.finish(&args.out, "cases").unwrap();
    failures.sort();
    failures.dedup();
    let meta = J::obj(vec![
        ("evaluations", J::I(w.len() as i128)),
        ("distinct_nontrivial", J::I(nontrivial as i128)),
        ("rule", J::s("model values with records (0-17 attributes, 0-17 items so that the 16-entry boundary of the fixmap / fixarray headers is crossed; array-like, map-like, mixed and empty bodies; nesting to depth 3; every scalar kind as attribute value, key and value): MsgPackInterpreter's bytes against the model's encoder, read_from_msg_pack::<Value> on the encoding, on the encoding followed by more input and on three random proper prefixes against the model's decoder")),
        ("structures", J::counts(&kinds)),
        ("samples", J::A(vec![])),
        ("direct_failures", J::A(failures.iter().take(40).map(|f| J::s(f.chars().take(500).collect::<String>())).collect())),
        ("direct_failure_count", J::I(failures.len() as i128)),
    ]);
    write_meta(&args.out, "meta.json", &meta);
}
