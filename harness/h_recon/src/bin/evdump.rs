//! Probe: the parse events of Recon texts (one per argument), with compare / hash against the first.
use std::collections::hash_map::DefaultHasher;
use std::hash::Hasher;
use swimos_form::read::{ReadError, ReadEvent, Recognizer, RecognizerReadable};
use swimos_model::Value;
use swimos_recon::parser::{parse_recognize, Span};
use swimos_recon::{compare_recon_values, recon_hash};

pub struct Log(pub Vec<String>);
pub struct LogRec(Vec<String>);

impl Recognizer for LogRec {
    type Target = Log;
    fn feed_event(&mut self, input: ReadEvent<'_>) -> Option<Result<Log, ReadError>> {
        self.0.push(match input {
            ReadEvent::StartAttribute(n) => format!("SA({})", n),
            ReadEvent::EndAttribute => "EA".into(),
            ReadEvent::StartBody => "SB".into(),
            ReadEvent::EndRecord => "ER".into(),
            ReadEvent::Slot => "Slot".into(),
            ReadEvent::Extant => "Extant".into(),
            ow => format!("{:?}", ow),
        });
        None
    }
    fn try_flush(&mut self) -> Option<Result<Log, ReadError>> {
        Some(Ok(Log(std::mem::take(&mut self.0))))
    }
    fn reset(&mut self) {
        self.0.clear()
    }
}

impl RecognizerReadable for Log {
    type Rec = LogRec;
    type AttrRec = LogRec;
    type BodyRec = LogRec;
    fn make_recognizer() -> LogRec {
        LogRec(vec![])
    }
    fn make_attr_recognizer() -> LogRec {
        LogRec(vec![])
    }
    fn make_body_recognizer() -> LogRec {
        LogRec(vec![])
    }
}

fn h(s: &str) -> u64 {
    let mut hasher = DefaultHasher::new();
    recon_hash(s, &mut hasher);
    hasher.finish()
}

fn main() {
    let args: Vec<String> = std::env::args().skip(1).collect();
    for a in &args {
        let ev = parse_recognize::<Log>(Span::new(a), false).map(|l| l.0.join(" "));
        let v = parse_recognize::<Value>(Span::new(a), false);
        println!("{:?}\n   events: {:?}\n   value: {:?}\n   eq-first: {} same-hash: {}", a, ev, v, compare_recon_values(&args[0], a), h(&args[0]) == h(a));
    }
}
