//! FROZEN COPY, used only to delimit the known finding C15-F1 (never to decide the property).
//!
//! This is `incremental_compare` and `ValueValidator` of api/formats/swimos_recon/src/comparator/mod.rs as of
//! swim-rust commit e01d4fb (the tree on which C15-F1 was recorded), verbatim except that the two event streams
//! are vectors of parse events instead of `ParseIterator`s.  A wrong answer of `compare_recon_values` is counted
//! as the known finding only if this frozen algorithm gives the same wrong answer on the same two event
//! streams: a change to the comparator that makes it wrong on further pairs is then reported as a violation.
#![allow(dead_code)]
use smallvec::SmallVec;
use std::iter::Peekable;
use swimos_form::read::ReadEvent;

pub fn frozen_compare(first: Vec<ReadEvent<'static>>, second: Vec<ReadEvent<'static>>) -> Option<bool> {
    let ok = Ok as fn(ReadEvent<'static>) -> Result<ReadEvent<'static>, ()>;
    incremental_compare(&mut first.into_iter().map(ok).peekable(), &mut second.into_iter().map(ok).peekable())
}

fn incremental_compare<'a, It: Iterator<Item = Result<ReadEvent<'a>, ()>>>(
    first_iter: &mut Peekable<It>,
    second_iter: &mut Peekable<It>,
) -> Option<bool> {
    let mut validator_1 = ValueValidator::new();
    let mut validator_2 = ValueValidator::new();

    loop {
        match (first_iter.next(), second_iter.next()) {
            (Some(Ok(event_1)), Some(Ok(event_2))) if event_1 == event_2 => {
                validator_1.feed_event(event_1);
                validator_2.feed_event(event_2);
            }

            (Some(Ok(mut event_1)), Some(Ok(mut event_2))) if event_1 != event_2 => {
                if event_1 == ReadEvent::StartBody {
                    validator_1.feed_event(event_1);

                    if let Some(Ok(event)) = first_iter.next() {
                        event_1 = event;
                    } else {
                        return Some(false);
                    }
                }

                if event_1 == ReadEvent::EndRecord {
                    validator_1.feed_event(event_1);

                    if let Some(Ok(event)) = first_iter.next() {
                        event_1 = event;
                    } else {
                        return Some(false);
                    }
                }

                if event_2 == ReadEvent::StartBody {
                    validator_2.feed_event(event_2);

                    if let Some(Ok(event)) = second_iter.next() {
                        event_2 = event;
                    } else {
                        return Some(false);
                    }
                }

                if event_2 == ReadEvent::EndRecord {
                    validator_2.feed_event(event_2);

                    if let Some(Ok(event)) = second_iter.next() {
                        event_2 = event;
                    } else {
                        return Some(false);
                    }
                }

                if event_1 != event_2 {
                    return Some(false);
                }

                let first_value = validator_1.feed_event(event_1);
                let second_value = validator_2.feed_event(event_2);

                if first_value != second_value {
                    return Some(false);
                }
            }

            (Some(Ok(event_1)), None) => {
                validator_1.feed_event(event_1);
            }
            (None, Some(Ok(event_2))) => {
                validator_2.feed_event(event_2);
            }

            (Some(Err(_)), Some(Err(_))) => {
                return None;
            }

            (Some(Err(_)), _) | (_, Some(Err(_))) => {
                return Some(false);
            }

            _ => {
                return Some(validator_1 == validator_2);
            }
        }

        if validator_1 != validator_2 {
            return if validator_1.has_invalid_state() && validator_2.has_invalid_state() {
                None
            } else {
                Some(false)
            };
        }
    }
}

#[derive(Debug, Clone, Copy, Eq, PartialEq)]
enum ValidatorState {
    Init,
    InProgress,
    Invalid,
}

/// The type of an item.
#[derive(Debug, Clone, Copy, Eq, PartialEq)]
enum ItemType {
    /// Item holding a single value.
    Value(ValueType),
    /// Item holding a slot with a key and a value.
    Slot(ValueType, ValueType),
}

impl ItemType {
    fn len(&self) -> usize {
        match self {
            ItemType::Value(val) => val.len(),
            ItemType::Slot(key, val) => key.len() + val.len(),
        }
    }
}

/// The type of a value.
#[derive(Debug, Clone, Copy, Eq, PartialEq)]
enum ValueType {
    /// A simple primitive value.
    Primitive,
    /// A record, containing the sizes of its nested attributes and items.
    Record(usize, usize),
}

impl ValueType {
    fn len(&self) -> usize {
        match self {
            ValueType::Primitive => 1,
            ValueType::Record(attrs, items) => {
                let mut size = 0;

                if *attrs == 0 {
                    size += 1;
                } else {
                    size += *attrs;
                }

                if *items == 0 {
                    size += 1;
                } else {
                    size += items
                }

                size
            }
        }
    }
}

#[derive(Debug, Clone, Copy, Eq, PartialEq)]
enum KeyState {
    NoKey,
    Attr,
    Slot(ValueType),
}

#[derive(Debug, Clone, Copy, Eq, PartialEq)]
struct BuilderState {
    /// The type of the key for the current builder.
    key: KeyState,
    /// Flag indicating if the value from the builder is in a body.
    in_body: bool,
    /// A vector containing the attributes of the builder.
    attrs: usize,
    /// A structure containing information about the items of the builder.
    items: ItemCollection,
}

/// A custom data structure that stores the last item and the size and count
/// of the rest of the items inserted into it. This information is needed in order
/// to correctly compare attributes with implicit and explicit record syntax.
#[derive(Debug, Clone, Copy, Eq, PartialEq)]
struct ItemCollection {
    /// The last item inserted into the collection.
    last: Option<ItemType>,
    /// The size of all items in the collection, excluding the last item.
    /// This is different than the count as the size of an item includes
    /// the sizes of all of its child items.
    rest_size: usize,
    /// The total count of items in the collection.
    items_count: usize,
}

impl ItemCollection {
    fn new() -> Self {
        ItemCollection {
            last: None,
            rest_size: 0,
            items_count: 0,
        }
    }

    /// The size of all items in the collection.
    /// This is different than the count as the size of an item includes
    /// the sizes of all of its child items.
    fn items_len(&self) -> usize {
        if let Some(last) = &self.last {
            self.rest_size + last.len()
        } else {
            self.rest_size
        }
    }

    /// The number of items in the collection.
    fn count(&self) -> usize {
        self.items_count
    }

    /// Whether or not this collection has any items.
    fn is_empty(&self) -> bool {
        self.items_count == 0
    }

    /// Stores an item into the collection.
    /// Note: Once a new item is stored the previous item can no longer be retrieved.
    fn push(&mut self, item: ItemType) {
        self.items_count += 1;

        if let Some(last) = &self.last {
            self.rest_size += last.len()
        }

        self.last = Some(item);
    }

    /// Returns the last item from the collection.
    /// Note: This collection only stores the last item. No item before it can
    /// be retrieved or removed.
    fn pop(&mut self) -> Option<ItemType> {
        self.last.take()
    }
}

impl BuilderState {
    fn items_len(&self) -> usize {
        self.items.items_len()
    }

    fn attrs_len(&self) -> usize {
        self.attrs
    }
}

#[derive(Debug, Clone)]
struct ValueValidator {
    /// The state of the validator.
    state: ValidatorState,
    /// The internal stack of builders.
    stack: SmallVec<[BuilderState; 4]>,
    /// The value of the slot key, if present.
    slot_key: Option<ValueType>,
}

impl PartialEq for ValueValidator {
    fn eq(&self, other: &Self) -> bool {
        if self.slot_key != other.slot_key {
            return false;
        }

        match (&self.state, &other.state) {
            (ValidatorState::InProgress, ValidatorState::InProgress) => {
                let mut self_iter = self.stack.iter().peekable();
                let mut other_iter = other.stack.iter().peekable();

                loop {
                    match (self_iter.next(), other_iter.next()) {
                        (Some(self_builder), Some(other_builder)) => {
                            let mut self_items_len = self_builder.items_len();
                            let mut other_items_len = other_builder.items_len();

                            let mut self_attrs_len = self_builder.attrs_len();
                            let mut other_attrs_len = other_builder.attrs_len();

                            while let Some(self_builder_next) = self_iter.peek() {
                                if self_builder_next.key == KeyState::NoKey {
                                    let self_builder_next = self_iter.next().unwrap();
                                    self_items_len += self_builder_next.items_len();
                                    self_attrs_len += self_builder_next.attrs_len();
                                } else {
                                    break;
                                }
                            }
                            while let Some(other_builder_next) = other_iter.peek() {
                                if other_builder_next.key == KeyState::NoKey {
                                    let other_builder_next = other_iter.next().unwrap();
                                    other_items_len += other_builder_next.items_len();
                                    other_attrs_len += other_builder_next.attrs_len();
                                } else {
                                    break;
                                }
                            }

                            if self_items_len == other_items_len
                                && self_attrs_len == other_attrs_len
                            {
                                continue;
                            } else {
                                return false;
                            }
                        }
                        (Some(self_builder), None) => {
                            if self_builder.key == KeyState::NoKey
                                && self_builder.attrs == 0
                                && self_builder.items.is_empty()
                            {
                                continue;
                            }
                        }
                        (None, Some(other_builder)) => {
                            if other_builder.key == KeyState::NoKey
                                && other_builder.attrs == 0
                                && other_builder.items.is_empty()
                            {
                                continue;
                            }
                        }
                        (None, None) => return true,
                    }
                }
            }
            (ValidatorState::Init, ValidatorState::Init) => true,
            _ => false,
        }
    }
}

impl ValueValidator {
    fn new() -> Self {
        ValueValidator {
            state: ValidatorState::Init,
            stack: SmallVec::with_capacity(4),
            slot_key: None,
        }
    }

    fn has_invalid_state(&self) -> bool {
        self.state == ValidatorState::Invalid
    }

    fn feed_event(&mut self, input: ReadEvent<'_>) -> Option<ValueType> {
        match &mut self.state {
            ValidatorState::Init => match input {
                ReadEvent::StartAttribute(_) => {
                    self.new_attr_frame();
                    self.state = ValidatorState::InProgress;
                }
                ReadEvent::StartBody => {
                    self.new_record_frame(true);
                    self.state = ValidatorState::InProgress;
                }
                ReadEvent::Slot => self.state = ValidatorState::Invalid,
                ReadEvent::EndAttribute => self.state = ValidatorState::Invalid,
                ReadEvent::EndRecord => self.state = ValidatorState::Invalid,
                _ => {}
            },
            ValidatorState::InProgress => match input {
                ReadEvent::Extant
                | ReadEvent::TextValue(_)
                | ReadEvent::Number(_)
                | ReadEvent::Boolean(_)
                | ReadEvent::Blob(_) => {
                    if self.add_item(ValueType::Primitive).is_err() {
                        self.state = ValidatorState::Invalid
                    }
                }
                ReadEvent::StartAttribute(_) => {
                    self.new_attr_frame();
                }
                ReadEvent::StartBody => {
                    if self.new_record_item().is_err() {
                        self.state = ValidatorState::Invalid
                    }
                }
                ReadEvent::Slot => {
                    if self.set_slot_key().is_err() {
                        self.state = ValidatorState::Invalid
                    }
                }
                ReadEvent::EndAttribute => match self.pop(true) {
                    Ok(done) => {
                        if done.is_some() {
                            self.state = ValidatorState::Init
                        }
                    }
                    Err(_) => self.state = ValidatorState::Invalid,
                },
                ReadEvent::EndRecord => match self.pop(false) {
                    Ok(done) => {
                        if let Some(val) = done {
                            self.state = ValidatorState::Init;
                            return Some(val);
                        }
                    }
                    Err(_) => self.state = ValidatorState::Invalid,
                },
            },
            ValidatorState::Invalid => {}
        }
        None
    }

    fn new_record_frame(&mut self, in_body: bool) {
        let frame = if let Some(key) = self.slot_key.take() {
            BuilderState {
                key: KeyState::Slot(key),
                in_body,
                attrs: 0,
                items: ItemCollection::new(),
            }
        } else {
            BuilderState {
                key: KeyState::NoKey,
                in_body,
                attrs: 0,
                items: ItemCollection::new(),
            }
        };

        self.stack.push(frame);
    }

    fn new_record_item(&mut self) -> Result<(), ()> {
        let top = self.stack.last_mut().ok_or(())?;

        if top.in_body {
            self.new_record_frame(true);
        } else {
            top.in_body = true;
        }
        Ok(())
    }

    fn new_attr_frame(&mut self) {
        match self.stack.last() {
            Some(top) if !top.in_body => {}
            _ => self.new_record_frame(false),
        }

        self.stack.push(BuilderState {
            key: KeyState::Attr,
            in_body: true,
            attrs: 0,
            items: ItemCollection::new(),
        })
    }

    fn set_slot_key(&mut self) -> Result<(), ()> {
        let key = match self.stack.last_mut().ok_or(())?.items.pop() {
            Some(ItemType::Value(value)) => value,
            _ => ValueType::Primitive,
        };

        self.slot_key = Some(key);
        Ok(())
    }

    /// Pops the top element from the stack of builder states and returns either an Ok(bool), where
    /// the bool indicates whether or not the validator is done, or an error.
    fn pop(&mut self, is_attr_end: bool) -> Result<Option<ValueType>, ()> {
        if let Some(BuilderState {
            key,
            attrs,
            mut items,
            ..
        }) = self.stack.pop()
        {
            match key {
                KeyState::NoKey => {
                    if is_attr_end {
                        Err(())
                    } else {
                        let record = ValueType::Record(attrs, items.items_len());
                        if self.stack.is_empty() {
                            Ok(Some(record))
                        } else {
                            self.add_value(record)?;
                            Ok(None)
                        }
                    }
                }
                KeyState::Slot(key) => {
                    if is_attr_end {
                        Err(())
                    } else {
                        let record = ValueType::Record(attrs, items.items_len());
                        self.add_slot(key, record)?;
                        Ok(None)
                    }
                }
                KeyState::Attr => {
                    if is_attr_end {
                        let body = if attrs == 0 && items.count() <= 1 {
                            match items.pop() {
                                Some(ItemType::Value(value)) => value,
                                Some(slot @ ItemType::Slot(_, _)) => {
                                    ValueType::Record(0, slot.len())
                                }
                                _ => ValueType::Primitive,
                            }
                        } else {
                            ValueType::Record(attrs, items.items_len())
                        };
                        self.add_attr(body)?;
                        Ok(None)
                    } else {
                        Err(())
                    }
                }
            }
        } else {
            Err(())
        }
    }

    fn add_attr(&mut self, value: ValueType) -> Result<(), ()> {
        self.stack.last_mut().ok_or(())?.attrs += value.len();
        Ok(())
    }

    fn add_item(&mut self, value: ValueType) -> Result<(), ()> {
        let slot_key = self.slot_key.take();
        let top = self.stack.last_mut().ok_or(())?;

        if top.in_body {
            if let Some(key) = slot_key {
                top.items.push(ItemType::Slot(key, value));
            } else {
                top.items.push(ItemType::Value(value));
            }
            Ok(())
        } else {
            Err(())
        }
    }

    fn add_slot(&mut self, key: ValueType, value: ValueType) -> Result<(), ()> {
        self.stack
            .last_mut()
            .ok_or(())?
            .items
            .push(ItemType::Slot(key, value));
        Ok(())
    }

    fn add_value(&mut self, value: ValueType) -> Result<(), ()> {
        self.stack
            .last_mut()
            .ok_or(())?
            .items
            .push(ItemType::Value(value));
        Ok(())
    }
}
