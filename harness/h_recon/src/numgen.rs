//! Generators of integers and of their spellings as Recon literals (shared by c16i; c09n has its own copy).
use num_bigint::BigInt;
use vcore::*;

pub fn boundaries() -> Vec<BigInt> {
    let two = BigInt::from(2);
    let mut v = vec![BigInt::from(0), BigInt::from(1), BigInt::from(9), BigInt::from(10), BigInt::from(99), BigInt::from(100), BigInt::from(255), BigInt::from(256)];
    for e in [7u32, 8, 15, 16, 31, 32, 53, 63, 64, 65, 127, 128, 200] {
        let p = two.pow(e);
        v.push(&p - 1);
        v.push(p.clone());
        v.push(&p + 1);
    }
    let neg: Vec<BigInt> = v.iter().map(|x| -x).collect();
    v.extend(neg);
    v
}

pub fn random_int(rng: &mut Rng) -> BigInt {
    match rng.below(6) {
        0 => BigInt::from(rng.below(1000) as i64 - 500),
        1 => BigInt::from(rng.next_u64() as i64),
        2 => BigInt::from(rng.next_u64()),
        3 => {
            let mut x = BigInt::from(rng.next_u64());
            for _ in 0..rng.range(1, 3) {
                x = x * BigInt::from(rng.next_u64()) + BigInt::from(rng.next_u64() % 1000);
            }
            if rng.below(2) == 0 {
                -x
            } else {
                x
            }
        }
        4 => {
            // near a power of ten (digit count changes)
            let p = BigInt::from(10).pow(rng.range(1, 40) as u32);
            p + BigInt::from(rng.below(3) as i64 - 1)
        }
        _ => {
            let b = boundaries();
            b[rng.usize_below(b.len())].clone()
        }
    }
}

/// One of the ways of writing the integer z.
pub fn spell(rng: &mut Rng, z: &BigInt) -> String {
    let neg = z.sign() == num_bigint::Sign::Minus || (*z == BigInt::from(0) && rng.below(6) == 0);
    let mag = z.magnitude();
    let zeros = "0".repeat(if rng.below(3) == 0 { rng.range(1, 3) as usize } else { 0 });
    let body = match rng.below(5) {
        0 => format!("{}{}{}", if rng.below(2) == 0 { "0x" } else { "0X" }, zeros, if rng.below(2) == 0 { format!("{:x}", mag) } else { format!("{:X}", mag) }),
        1 => format!("{}{}{:b}", if rng.below(2) == 0 { "0b" } else { "0B" }, zeros, mag),
        _ => format!("{}{}", zeros, mag),
    };
    let core = format!("{}{}", if neg { "-" } else { "" }, body);
    match rng.below(5) {
        0 => format!(" {}", core),
        1 => format!("{}\t ", core),
        _ => core,
    }
}


/// Damage a text by one character of the alphabet of numeric literals (inserted, removed or replaced).
pub fn damage(rng: &mut Rng, s: &str) -> String {
    let alphabet = ['0', '1', '2', '9', 'a', 'f', 'F', 'g', 'x', 'X', 'b', 'B', '-', '.', 'e', 'E', ' ', '+', '_'];
    let mut cs: Vec<char> = s.chars().collect();
    let c = alphabet[rng.usize_below(alphabet.len())];
    match rng.below(3) {
        0 => {
            let p = rng.usize_below(cs.len() + 1);
            cs.insert(p, c);
        }
        1 if !cs.is_empty() => {
            let p = rng.usize_below(cs.len());
            cs.remove(p);
        }
        _ if !cs.is_empty() => {
            let p = rng.usize_below(cs.len());
            cs[p] = c;
        }
        _ => {}
    }
    cs.into_iter().collect()
}
