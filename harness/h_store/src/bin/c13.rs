fn main() {}
