//! C13: the in-memory and the RocksDB persistence back-ends driven with the same histories.

use std::collections::{BTreeMap, BTreeSet};
use std::path::PathBuf;

use bytes::BytesMut;
use futures::executor::block_on;
use swimos_api::error::StoreError;
use swimos_api::persistence::{NodePersistence, PlanePersistence, RangeConsumer, ServerPersistence};
use swimos_rocks_store::{default_db_opts, open_rocks_store};
use swimos_server_app::verif_hooks::InMemoryPlanePersistence;
use vcore::*;

#[derive(Clone, Debug, PartialEq, Eq, PartialOrd, Ord)]
enum Op {
    GetValue(String, String),
    PutValue(String, String, Vec<u8>),
    DeleteValue(String, String),
    UpdateMap(String, String, Vec<u8>, Vec<u8>),
    RemoveMap(String, String, Vec<u8>),
    ClearMap(String, String),
    ReadMap(String, String),
    Open(String),
    Close(String),
    Reopen,
}

fn cs(s: &str) -> String {
    coq_bytes(s.as_bytes())
}

impl Op {
    fn coq(&self) -> String {
        match self {
            Op::GetValue(a, n) => format!("GetValue {} {}", cs(a), cs(n)),
            Op::PutValue(a, n, v) => format!("PutValue {} {} {}", cs(a), cs(n), coq_bytes(v)),
            Op::DeleteValue(a, n) => format!("DeleteValue {} {}", cs(a), cs(n)),
            Op::UpdateMap(a, n, k, v) => format!("UpdateMap {} {} {} {}", cs(a), cs(n), coq_bytes(k), coq_bytes(v)),
            Op::RemoveMap(a, n, k) => format!("RemoveMap {} {} {}", cs(a), cs(n), coq_bytes(k)),
            Op::ClearMap(a, n) => format!("ClearMap {} {}", cs(a), cs(n)),
            Op::ReadMap(a, n) => format!("ReadMap {} {}", cs(a), cs(n)),
            Op::Open(a) => format!("Open {}", cs(a)),
            Op::Close(a) => format!("Close {}", cs(a)),
            Op::Reopen => "Reopen".into(),
        }
    }
    fn kind(&self) -> &'static str {
        match self {
            Op::GetValue(..) => "get_value",
            Op::PutValue(..) => "put_value",
            Op::DeleteValue(..) => "delete_value",
            Op::UpdateMap(..) => "update_map",
            Op::RemoveMap(..) => "remove_map",
            Op::ClearMap(..) => "clear_map",
            Op::ReadMap(..) => "read_map",
            Op::Open(..) => "open",
            Op::Close(..) => "close",
            Op::Reopen => "reopen",
        }
    }
    fn target(&self) -> Option<(&str, &str)> {
        match self {
            Op::GetValue(a, n)
            | Op::PutValue(a, n, _)
            | Op::DeleteValue(a, n)
            | Op::UpdateMap(a, n, _, _)
            | Op::RemoveMap(a, n, _)
            | Op::ClearMap(a, n)
            | Op::ReadMap(a, n) => Some((a, n)),
            _ => None,
        }
    }
}

fn res_unit(r: Result<(), StoreError>) -> String {
    match r {
        Ok(()) => "RUnit".into(),
        Err(StoreError::InvalidOperation) => "RInvalid".into(),
        // any other error is a result too: the model never produces it, so the case fails the comparison
        Err(e) => format!("RInvalid (* {} *)", format!("{:?}", e).replace("*)", "* )").chars().take(120).collect::<String>()),
    }
}

fn call<N: NodePersistence>(node: &mut N, op: &Op) -> String {
    let (_, name) = op.target().unwrap();
    let id = node.id_for(name).expect("id_for");
    let r = match op {
        Op::GetValue(..) => {
            let mut buf = BytesMut::new();
            match node.get_value(id, &mut buf) {
                Ok(Some(n)) => {
                    assert_eq!(n, buf.len());
                    format!("RVal (Some {})", coq_bytes(&buf))
                }
                Ok(None) => "RVal None".into(),
                Err(StoreError::InvalidOperation) => "RInvalid".into(),
                Err(e) => panic!("unexpected store error {:?}", e),
            }
        }
        Op::PutValue(_, _, v) => res_unit(node.put_value(id, v)),
        Op::DeleteValue(..) => res_unit(node.delete_value(id)),
        Op::UpdateMap(_, _, k, v) => res_unit(node.update_map(id, k, v)),
        Op::RemoveMap(_, _, k) => res_unit(node.remove_map(id, k)),
        Op::ClearMap(..) => res_unit(node.clear_map(id)),
        Op::ReadMap(..) => match node.read_map(id) {
            Ok(mut it) => {
                let mut entries: Vec<(Vec<u8>, Vec<u8>)> = vec![];
                let mut failed = false;
                loop {
                    match it.consume_next() {
                        Ok(Some((k, v))) => entries.push((k.to_vec(), v.to_vec())),
                        Ok(None) => break,
                        // an error while reading back entries that were written: reported as a result the
                        // model never gives for a readable map
                        Err(_) => {
                            failed = true;
                            break;
                        }
                    }
                }
                entries.sort();
                if failed {
                    "RInvalid".into()
                } else {
                    format!(
                        "REntries {}",
                        coq_list(entries.iter().map(|(k, v)| format!("({}, {})", coq_bytes(k), coq_bytes(v))))
                    )
                }
            }
            Err(StoreError::InvalidOperation) => "RInvalid".into(),
            Err(e) => panic!("unexpected store error {:?}", e),
        },
        _ => unreachable!(),
    };
    format!("(Some {:?}%N, {})", id, r)
}

fn run_plane<P: PlanePersistence>(
    make_plane: &mut dyn FnMut() -> P,
    supports_reopen: bool,
    ops: &[Op],
) -> Vec<String> {
    let mut plane = Some(make_plane());
    let mut nodes: BTreeMap<String, P::Node> = BTreeMap::new();
    let mut outs = vec![];
    let skipped = "(None, RSkipped)".to_string();
    for op in ops {
        let o = match op {
            Op::Open(a) => {
                if nodes.contains_key(a) {
                    // the agent is running: the server builds the request for its store all the same and abandons it
                    // (server/runtime: node_store(..) before resolve_agent); nothing may come of that
                    drop(plane.as_ref().unwrap().node_store(a));
                    skipped.clone()
                } else {
                    let n = block_on(plane.as_ref().unwrap().node_store(a)).expect("node_store");
                    nodes.insert(a.clone(), n);
                    "(None, RUnit)".into()
                }
            }
            Op::Close(a) => {
                if nodes.remove(a).is_some() {
                    "(None, RUnit)".into()
                } else {
                    skipped.clone()
                }
            }
            Op::Reopen => {
                if supports_reopen {
                    nodes.clear();
                    plane = None; // closes the database
                    plane = Some(make_plane());
                    "(None, RUnit)".into()
                } else {
                    skipped.clone()
                }
            }
            other => {
                let (a, _) = other.target().unwrap();
                match nodes.get_mut(a) {
                    Some(n) => call(n, other),
                    None => skipped.clone(),
                }
            }
        };
        outs.push(o);
    }
    outs
}

fn run_mem(ops: &[Op]) -> Vec<String> {
    let plane = InMemoryPlanePersistence::default();
    let mut mk = || plane.clone();
    run_plane(&mut mk, false, ops)
}

fn open_plane_at<S: ServerPersistence>(s: S) -> S::PlaneStore {
    s.open_plane("plane").expect("open_plane")
}

fn run_rocks(dir: &PathBuf, ops: &[Op]) -> Vec<String> {
    let _ = std::fs::remove_dir_all(dir);
    std::fs::create_dir_all(dir).unwrap();
    let d = dir.clone();
    fn go<P: PlanePersistence>(mk: &mut dyn FnMut() -> P, ops: &[Op]) -> Vec<String> {
        run_plane(mk, true, ops)
    }
    let mut mk = move || open_plane_at(open_rocks_store(Some(d.clone()), default_db_opts()).expect("open_rocks_store"));
    let outs = go(&mut mk, ops);
    let _ = std::fs::remove_dir_all(dir);
    outs
}

// ---- generators ----

const AGENTS: &[&str] = &["/a", "/a/b", "/unit/1", "/é"];
const ITEMS: &[&str] = &["x", "b/c", "c", "lane", ""];

fn key(rng: &mut Rng) -> Vec<u8> {
    // lengths around the key-prefix sizes, 0x00 / 0xff bytes, shared prefixes
    let pool: &[&[u8]] = &[
        b"", b"\x00", b"\xff", b"a", b"ab", b"abc", b"\x00\x00", b"\x01", b"\x02", b"aaaaaaa", b"aaaaaaaa", b"aaaaaaaaa",
        b"0123456789abcdef", b"0123456789abcdefg", b"0123456789abcdefgh", b"\xff\xff\xff\xff\xff\xff\xff\xff\xff",
    ];
    if rng.chance(3, 4) {
        rng.pick(pool).to_vec()
    } else {
        let n = *rng.pick(&[0usize, 1, 7, 8, 9, 16, 17, 18, 19]);
        rng.bytes(n)
    }
}
fn val(rng: &mut Rng) -> Vec<u8> {
    let n = *rng.pick(&[0usize, 1, 2, 5, 20]);
    rng.bytes(n)
}

fn gen(rng: &mut Rng, rocks: bool, len: usize, collide: bool, mix_kinds: bool) -> Vec<Op> {
    // each (agent, item) has a fixed kind unless mix_kinds
    let agents: Vec<&str> = if collide { vec!["/a", "/a/b"] } else { vec!["/a", "/unit/1", "/é"] };
    let items: Vec<&str> = if collide { vec!["b/c", "c", "x"] } else { vec!["x", "c", "lane", ""] };
    let mut ops = vec![];
    let mut open: BTreeSet<String> = BTreeSet::new();
    let collide_kind = rng.chance(1, 2);
    while ops.len() < len {
        let a = rng.pick(&agents).to_string();
        let r = rng.below(100);
        if open.contains(&a) && (4..7).contains(&r) {
            // a request for the store of an agent that is running (abandoned by the server)
            ops.push(Op::Open(a));
            continue;
        }
        if !open.contains(&a) || r < 4 {
            if open.contains(&a) {
                open.remove(&a);
                ops.push(Op::Close(a));
            } else {
                open.insert(a.clone());
                ops.push(Op::Open(a));
            }
            continue;
        }
        if rocks && r < 8 {
            open.clear();
            ops.push(Op::Reopen);
            continue;
        }
        let idx = rng.usize_below(items.len());
        let n = items[idx].to_string();
        // kind by (agent, item) index parity unless mixing
        let is_map = if mix_kinds { rng.chance(1, 2) } else if collide { collide_kind } else { (idx + a.len()) % 2 == 0 };
        let op = if is_map {
            match rng.below(10) {
                0..=4 => Op::UpdateMap(a, n, key(rng), val(rng)),
                5 | 6 => Op::RemoveMap(a, n, key(rng)),
                7 => Op::ClearMap(a, n),
                _ => Op::ReadMap(a, n),
            }
        } else {
            match rng.below(10) {
                0..=4 => Op::PutValue(a, n, val(rng)),
                5 => Op::DeleteValue(a, n),
                _ => Op::GetValue(a, n),
            }
        };
        ops.push(op);
    }
    // read everything back at the end (after a reopen for RocksDB)
    if rocks {
        ops.push(Op::Reopen);
    }
    for a in &agents {
        if rocks || !open.contains(*a) {
            ops.push(Op::Open(a.to_string()));
        }
        for (idx, n) in items.iter().enumerate() {
            let is_map = if collide { collide_kind } else { (idx + a.len()) % 2 == 0 };
            if mix_kinds || is_map {
                ops.push(Op::ReadMap(a.to_string(), n.to_string()));
            }
            if mix_kinds || !is_map {
                ops.push(Op::GetValue(a.to_string(), n.to_string()));
            }
        }
    }
    ops
}

fn main() {
    let args = parse_args();
    let mut rng = Rng::new(args.seed);
    let mut w = CaseWriter::new(
        "From SwimV Require Import Lib.Hex Model.Stores.\nOpen Scope N_scope.",
        "scase",
        &["corr_bad", "oracle_bad", "known_hits"],
        args.shards.min(200),
    );
    let scratch = std::env::temp_dir().join(format!("verif_c13_{}", std::process::id()));
    let mut kinds: BTreeMap<String, u64> = BTreeMap::new();
    let mut backends: BTreeMap<String, u64> = BTreeMap::new();
    let mut distinct = BTreeSet::new();
    let mut nontrivial = 0u64;
    let mut samples = vec![];

    let mut emit = |rocks: bool, ops: &[Op], w: &mut CaseWriter| {
        let outs = if rocks { run_rocks(&scratch, ops) } else { run_mem(ops) };
        let term = format!(
            "({}, {}, {})",
            rocks,
            coq_list(ops.iter().map(|o| o.coq())),
            coq_list(outs.iter().cloned())
        );
        let human = format!("rocks={} ops={:?} impl={:?}", rocks, ops, outs);
        for o in ops {
            *kinds.entry(o.kind().into()).or_default() += 1;
        }
        *backends.entry(if rocks { "rocks" } else { "in_memory" }.into()).or_default() += 1;
        // non-trivial: a read_map returning >= 2 entries after a close/reopen
        let mut reopened = false;
        let mut nt = false;
        for (o, r) in ops.iter().zip(outs.iter()) {
            match o {
                Op::Close(_) | Op::Reopen => reopened = true,
                Op::ReadMap(..) if reopened && r.matches("(hex").count() >= 4 => nt = true,
                _ => {}
            }
        }
        if distinct.insert((rocks, ops.to_vec())) && nt {
            nontrivial += 1;
            if samples.len() < 3 {
                samples.push(J::s(human.chars().take(700).collect::<String>()));
            }
        }
        w.push(term, human);
    };

    // corpus
    let a = |s: &str| s.to_string();
    emit(
        true,
        &[
            Op::Open(a("/a")), Op::Open(a("/a/b")),
            Op::PutValue(a("/a"), a("b/c"), vec![1]), Op::PutValue(a("/a/b"), a("c"), vec![2]),
            Op::GetValue(a("/a"), a("b/c")), Op::GetValue(a("/a/b"), a("c")),
        ],
        &mut w,
    );
    emit(
        true,
        &[
            Op::Open(a("/a")),
            Op::UpdateMap(a("/a"), a("m"), vec![], vec![1]), Op::UpdateMap(a("/a"), a("m"), vec![0], vec![2]),
            Op::UpdateMap(a("/a"), a("n"), vec![0xff; 9], vec![3]), Op::UpdateMap(a("/a"), a("m"), b"0123456789abcdefgh".to_vec(), vec![4]),
            Op::ReadMap(a("/a"), a("m")), Op::ClearMap(a("/a"), a("m")), Op::ReadMap(a("/a"), a("m")), Op::ReadMap(a("/a"), a("n")),
            Op::Reopen, Op::Open(a("/a")), Op::ReadMap(a("/a"), a("n")), Op::UpdateMap(a("/a"), a("o"), vec![1], vec![1]), Op::ReadMap(a("/a"), a("o")),
        ],
        &mut w,
    );
    emit(
        false,
        &[
            Op::Open(a("/a")), Op::PutValue(a("/a"), a("x"), vec![1]), Op::UpdateMap(a("/a"), a("x"), vec![1], vec![1]),
            Op::Close(a("/a")), Op::Open(a("/a")), Op::GetValue(a("/a"), a("x")), Op::DeleteValue(a("/a"), a("x")),
            Op::UpdateMap(a("/a"), a("x"), vec![1], vec![1]), Op::GetValue(a("/a"), a("x")), Op::ReadMap(a("/a"), a("x")),
        ],
        &mut w,
    );

    // many items in one plane: the lane ids pass 255 / 256 (little-endian ids: byte order is not numeric order);
    // a clear of one lane must leave the lanes whose ids differ in a higher byte alone
    let wide = |rocks: bool, cleared: &[usize], rng: &mut Rng| -> Vec<Op> {
        let mut ops = vec![Op::Open(a("/w"))];
        let n = 300usize;
        for i in 0..n {
            ops.push(Op::UpdateMap(a("/w"), format!("i{}", i), vec![(i % 7) as u8], vec![(i % 251) as u8]));
            if i % 5 == 0 {
                ops.push(Op::PutValue(a("/w"), format!("v{}", i), vec![(i % 13) as u8]));
            }
        }
        let _ = rng;
        for c in cleared {
            ops.push(Op::ClearMap(a("/w"), format!("i{}", c)));
        }
        if rocks {
            ops.push(Op::Reopen);
            ops.push(Op::Open(a("/w")));
        }
        for i in 0..n {
            ops.push(Op::ReadMap(a("/w"), format!("i{}", i)));
        }
        ops
    };
    let wide_cases = if args.tier == "thorough" { 6 } else { 2 };
    for k in 0..wide_cases {
        let picks: Vec<usize> = (0..3).map(|_| rng.usize_below(300)).chain([0usize, 150, 211, 299]).collect();
        let ops = wide(k % 2 == 0, &picks, &mut rng);
        emit(k % 2 == 0, &ops, &mut w);
    }

    let _ = (AGENTS, ITEMS);
    for i in 0..args.cases {
        let rocks = i % 2 == 0;
        let len = rng.range(5, 60) as usize;
        let collide = rocks && rng.chance(1, 8);
        let mix = !rocks && rng.chance(1, 5);
        let ops = gen(&mut rng, rocks, len, collide, mix);
        emit(rocks, &ops, &mut w);
    }
    w.finish(&args.out, "cases").unwrap();
    let meta = J::obj(vec![
        ("evaluations", J::I(w.len() as i128)),
        ("distinct_nontrivial", J::I(nontrivial as i128)),
        ("rule", J::s("(a request for the store of an agent that is open is made and abandoned, as the server does for a running agent: Open of an open agent) first two (thorough: six) wide histories: 300 map items and 60 value items of one agent (lane ids pass 255 / 256 - ids are little-endian in the store keys), six of the maps cleared (among them the items with ids 1 and 255), a reopen, then every map read back; then histories of open / close / reopen (RocksDB: close the database and open the plane again) and id_for+get/put/delete/update/remove/clear/read_map over 3 agents x 4 items, each (agent, item) of a fixed kind (a fifth of the in-memory histories mix kinds to exercise InvalidOperation; an eighth of the RocksDB histories use agent/item names whose '<agent>/<item>' concatenations collide); keys from a pool of adversarial byte strings (empty, 0x00, 0xff, shared prefixes, lengths 7..9 and 16..19 around the key prefix sizes) or random; every history ends by reading everything back (after a reopen for RocksDB); alternating back-ends; non-trivial = a read_map with >= 2 entries after a close / reopen; distinct by history")),
        ("op_kinds", J::counts(&kinds)),
        ("backends", J::counts(&backends)),
        ("samples", J::A(samples)),
    ]);
    write_meta(&args.out, "meta.json", &meta);
}
