//! C13, the RocksDB back-end killed between two writes (hook swimos_rocks_store::verif_hooks::set_write_budget):
//! histories of open / item operations in which some operations are cut off after 0-3 writes, the database being
//! closed and opened again afterwards.  Identifiers must stay one per name and never be shared, whatever the cut.
use std::collections::BTreeMap;
use std::path::PathBuf;

use bytes::BytesMut;
use futures::executor::block_on;
use swimos_api::persistence::{NodePersistence, PlanePersistence, RangeConsumer, ServerPersistence};
use swimos_rocks_store::verif_hooks::set_write_budget;
use swimos_rocks_store::{default_db_opts, open_rocks_store};
use vcore::*;

#[derive(Clone, Debug, PartialEq, Eq, PartialOrd, Ord)]
enum Op {
    GetValue(String, String),
    PutValue(String, String, Vec<u8>),
    DeleteValue(String, String),
    UpdateMap(String, String, Vec<u8>, Vec<u8>),
    RemoveMap(String, String, Vec<u8>),
    ClearMap(String, String),
    ReadMap(String, String),
    Open(String),
    Close(String),
    Reopen,
}

#[derive(Clone, Debug, PartialEq, Eq, PartialOrd, Ord)]
enum HOp {
    Do(Op),
    Kill(u64, Op),
    /// the process that holds the database is killed outright (SIGKILL) after every operation so far has been
    /// acknowledged; the database is then opened by another process
    Sigkill,
}

impl Op {
    fn coq(&self) -> String {
        let b = |s: &str| coq_bytes(s.as_bytes());
        match self {
            Op::GetValue(a, n) => format!("(GetValue {} {})", b(a), b(n)),
            Op::PutValue(a, n, v) => format!("(PutValue {} {} {})", b(a), b(n), coq_bytes(v)),
            Op::DeleteValue(a, n) => format!("(DeleteValue {} {})", b(a), b(n)),
            Op::UpdateMap(a, n, k, v) => format!("(UpdateMap {} {} {} {})", b(a), b(n), coq_bytes(k), coq_bytes(v)),
            Op::RemoveMap(a, n, k) => format!("(RemoveMap {} {} {})", b(a), b(n), coq_bytes(k)),
            Op::ClearMap(a, n) => format!("(ClearMap {} {})", b(a), b(n)),
            Op::ReadMap(a, n) => format!("(ReadMap {} {})", b(a), b(n)),
            Op::Open(a) => format!("(Open {})", b(a)),
            Op::Close(a) => format!("(Close {})", b(a)),
            Op::Reopen => "Reopen".into(),
        }
    }
    fn target(&self) -> Option<(&str, &str)> {
        match self {
            Op::GetValue(a, n) | Op::PutValue(a, n, _) | Op::DeleteValue(a, n) | Op::UpdateMap(a, n, _, _) | Op::RemoveMap(a, n, _) | Op::ClearMap(a, n) | Op::ReadMap(a, n) => Some((a, n)),
            _ => None,
        }
    }
}
impl HOp {
    fn coq(&self) -> String {
        match self {
            HOp::Do(o) => format!("(HOp {})", o.coq()),
            HOp::Kill(k, o) => format!("(HKill {} {})", k, o.coq()),
            // in the model: nothing of a pending operation is written, the database is opened again
            HOp::Sigkill => "(HKill 0 Reopen)".to_string(),
        }
    }
}

/// The operation's own part (after the identifier): Err(()) when the store refused (the budget ran out).
fn perform<N: NodePersistence>(node: &mut N, id: N::LaneId, op: &Op) -> Result<String, ()> {
    Ok(match op {
        Op::GetValue(..) => {
            let mut buf = BytesMut::new();
            match node.get_value(id, &mut buf).map_err(|_| ())? {
                Some(_) => format!("RVal (Some {})", coq_bytes(&buf)),
                None => "RVal None".into(),
            }
        }
        Op::PutValue(_, _, v) => node.put_value(id, v).map(|_| "RUnit".to_string()).map_err(|_| ())?,
        Op::DeleteValue(..) => node.delete_value(id).map(|_| "RUnit".to_string()).map_err(|_| ())?,
        Op::UpdateMap(_, _, k, v) => node.update_map(id, k, v).map(|_| "RUnit".to_string()).map_err(|_| ())?,
        Op::RemoveMap(_, _, k) => node.remove_map(id, k).map(|_| "RUnit".to_string()).map_err(|_| ())?,
        Op::ClearMap(..) => node.clear_map(id).map(|_| "RUnit".to_string()).map_err(|_| ())?,
        Op::ReadMap(..) => {
            let mut it = node.read_map(id).map_err(|_| ())?;
            let mut entries: Vec<(Vec<u8>, Vec<u8>)> = vec![];
            while let Some((k, v)) = it.consume_next().map_err(|_| ())? {
                entries.push((k.to_vec(), v.to_vec()));
            }
            entries.sort();
            format!("REntries {}", coq_list(entries.iter().map(|(k, v)| format!("({}, {})", coq_bytes(k), coq_bytes(v)))))
        }
        _ => unreachable!(),
    })
}

fn hex(b: &[u8]) -> String {
    b.iter().map(|x| format!("{:02x}", x)).collect()
}
fn unhex(s: &str) -> Vec<u8> {
    (0..s.len() / 2).map(|i| u8::from_str_radix(&s[2 * i..2 * i + 2], 16).unwrap()).collect()
}
impl Op {
    fn line(&self) -> String {
        match self {
            Op::GetValue(a, n) => format!("GET\t{}\t{}", a, n),
            Op::PutValue(a, n, v) => format!("PUT\t{}\t{}\t{}", a, n, hex(v)),
            Op::DeleteValue(a, n) => format!("DEL\t{}\t{}", a, n),
            Op::UpdateMap(a, n, k, v) => format!("UPD\t{}\t{}\t{}\t{}", a, n, hex(k), hex(v)),
            Op::RemoveMap(a, n, k) => format!("REM\t{}\t{}\t{}", a, n, hex(k)),
            Op::ClearMap(a, n) => format!("CLR\t{}\t{}", a, n),
            Op::ReadMap(a, n) => format!("READ\t{}\t{}", a, n),
            Op::Open(a) => format!("OPEN\t{}", a),
            Op::Close(a) => format!("CLOSE\t{}", a),
            Op::Reopen => "REOPEN".to_string(),
        }
    }
    fn parse(f: &[&str]) -> Op {
        let s = |i: usize| f.get(i).copied().unwrap_or("").to_string();
        match f[0] {
            "GET" => Op::GetValue(s(1), s(2)),
            "PUT" => Op::PutValue(s(1), s(2), unhex(&s(3))),
            "DEL" => Op::DeleteValue(s(1), s(2)),
            "UPD" => Op::UpdateMap(s(1), s(2), unhex(&s(3)), unhex(&s(4))),
            "REM" => Op::RemoveMap(s(1), s(2), unhex(&s(3))),
            "CLR" => Op::ClearMap(s(1), s(2)),
            "READ" => Op::ReadMap(s(1), s(2)),
            "OPEN" => Op::Open(s(1)),
            "CLOSE" => Op::Close(s(1)),
            _ => Op::Reopen,
        }
    }
}
impl HOp {
    fn line(&self) -> String {
        match self {
            HOp::Do(o) => format!("DO\t{}", o.line()),
            HOp::Kill(k, o) => format!("KILL\t{}\t{}", k, o.line()),
            HOp::Sigkill => "SIGKILL".to_string(),
        }
    }
    fn parse(line: &str) -> HOp {
        let f: Vec<&str> = line.trim_end_matches('\n').split('\t').collect();
        match f[0] {
            "DO" => HOp::Do(Op::parse(&f[1..])),
            "KILL" => HOp::Kill(f[1].parse().unwrap(), Op::parse(&f[2..])),
            _ => HOp::Sigkill,
        }
    }
}

/// One operation on an open session (a plane and the node stores opened on it).
fn exec_hop<P: PlanePersistence>(mk: &dyn Fn() -> P, plane: &mut Option<P>, nodes: &mut BTreeMap<String, P::Node>, h: &HOp) -> Result<String, String> {
    let skipped = "(None, RSkipped)".to_string();
    if plane.is_none() {
        *plane = Some(mk());
    }
    Ok(match h {
        HOp::Do(Op::Open(a)) => {
            if nodes.contains_key(a) {
                skipped
            } else {
                nodes.insert(a.clone(), block_on(plane.as_ref().unwrap().node_store(a)).map_err(|e| format!("node_store: {:?}", e))?);
                "(None, RUnit)".into()
            }
        }
        HOp::Do(Op::Close(a)) => {
            if nodes.remove(a).is_some() {
                "(None, RUnit)".into()
            } else {
                skipped
            }
        }
        HOp::Do(Op::Reopen) => {
            nodes.clear();
            *plane = None;
            *plane = Some(mk());
            "(None, RUnit)".into()
        }
        HOp::Do(op) => {
            let (a, name) = op.target().unwrap();
            match nodes.get_mut(a) {
                Some(n) => {
                    let id = n.id_for(name).map_err(|e| format!("id_for without a kill failed: {:?}", e))?;
                    let r = perform(n, id, op).map_err(|_| format!("{:?} without a kill failed", op))?;
                    format!("(Some {:?}%N, {})", id, r)
                }
                None => skipped,
            }
        }
        HOp::Kill(k, op) => {
            if let Some((a, name)) = op.target() {
                if let Some(n) = nodes.get_mut(a) {
                    set_write_budget(*k as i64);
                    if let Ok(id) = n.id_for(name) {
                        let _ = perform(n, id, op);
                    }
                    set_write_budget(i64::MAX);
                }
            }
            // the process is as good as gone: nothing is closed in an orderly way, the database is opened again
            nodes.clear();
            *plane = None;
            *plane = Some(mk());
            skipped
        }
        HOp::Sigkill => skipped,
    })
}

/// The child: holds the database, carries out what it is told on stdin, acknowledges on stdout, and waits to be killed.
fn child_main(dir: PathBuf) -> ! {
    use std::io::{BufRead, Write};
    set_write_budget(i64::MAX);
    let d = dir.clone();
    let mk = move || open_rocks_store(Some(d.clone()), default_db_opts()).expect("open_rocks_store").open_plane("plane").expect("open_plane");
    let mut plane = None;
    let mut nodes = BTreeMap::new();
    let stdin = std::io::stdin();
    let mut out = std::io::stdout();
    for line in stdin.lock().lines() {
        let line = line.unwrap();
        let r = match exec_hop(&mk, &mut plane, &mut nodes, &HOp::parse(&line)) {
            Ok(o) => format!("OK\t{}", o),
            Err(e) => format!("ERR\t{}", e.replace('\n', " ")),
        };
        writeln!(out, "{}", r).unwrap();
        out.flush().unwrap();
    }
    loop {
        std::thread::sleep(std::time::Duration::from_secs(3600));
    }
}

struct ChildSession {
    child: std::process::Child,
    stdin: std::process::ChildStdin,
    stdout: std::io::BufReader<std::process::ChildStdout>,
}

fn run(dir: &PathBuf, hops: &[HOp]) -> Result<Vec<String>, String> {
    use std::io::{BufRead, Write};
    let _ = std::fs::remove_dir_all(dir);
    std::fs::create_dir_all(dir).unwrap();
    set_write_budget(i64::MAX);
    let d = dir.clone();
    let mk = move || open_rocks_store(Some(d.clone()), default_db_opts()).expect("open_rocks_store").open_plane("plane").expect("open_plane");
    let mut plane = None;
    let mut nodes = BTreeMap::new();
    let mut outs = vec![];
    let mut child: Option<ChildSession> = None;
    let spawn = |dir: &PathBuf| -> Result<ChildSession, String> {
        let mut c = std::process::Command::new(std::env::current_exe().map_err(|e| e.to_string())?)
            .arg("--child")
            .arg(dir)
            .stdin(std::process::Stdio::piped())
            .stdout(std::process::Stdio::piped())
            .stderr(std::process::Stdio::null())
            .spawn()
            .map_err(|e| format!("spawning the child failed: {}", e))?;
        let stdin = c.stdin.take().unwrap();
        let stdout = std::io::BufReader::new(c.stdout.take().unwrap());
        Ok(ChildSession { child: c, stdin, stdout })
    };
    for (i, h) in hops.iter().enumerate() {
        // everything before a SIGKILL is done by a process of its own, which is then killed
        let kill_ahead = hops[i..].iter().any(|x| matches!(x, HOp::Sigkill));
        if matches!(h, HOp::Sigkill) {
            if let Some(mut c) = child.take() {
                c.child.kill().map_err(|e| format!("kill: {}", e))?;
                let _ = c.child.wait();
            }
            outs.push("(None, RSkipped)".to_string());
            continue;
        }
        if kill_ahead {
            if child.is_none() {
                // the database is held by one process at a time
                nodes.clear();
                plane = None;
                child = Some(spawn(dir)?);
            }
            let c = child.as_mut().unwrap();
            writeln!(c.stdin, "{}", h.line()).map_err(|e| format!("child stdin: {}", e))?;
            c.stdin.flush().map_err(|e| format!("child stdin: {}", e))?;
            let mut answer = String::new();
            c.stdout.read_line(&mut answer).map_err(|e| format!("child stdout: {}", e))?;
            match answer.trim_end_matches('\n').split_once('\t') {
                Some(("OK", o)) => outs.push(o.to_string()),
                Some(("ERR", e)) => return Err(format!("in the child: {}", e)),
                _ => return Err(format!("the child answered {:?}", answer)),
            }
        } else {
            outs.push(exec_hop(&mk, &mut plane, &mut nodes, h)?);
        }
    }
    if let Some(mut c) = child.take() {
        let _ = c.child.kill();
        let _ = c.child.wait();
    }
    drop(nodes);
    drop(plane);
    let _ = std::fs::remove_dir_all(dir);
    Ok(outs)
}

const AGENTS: &[&str] = &["/a", "/b", "/unit"];
const ITEMS: &[&str] = &["v", "w", "m", "n", "p", "q", "r", "s"];

fn gen(rng: &mut Rng, sigkills: bool) -> Vec<HOp> {
    let mut hops = vec![];
    let agent = |rng: &mut Rng| AGENTS[rng.usize_below(AGENTS.len())].to_string();
    // the first items of ITEMS are values, the rest maps: kinds never mix on one item
    let item_op = |rng: &mut Rng, a: String| -> Op {
        let i = rng.usize_below(ITEMS.len());
        let n = ITEMS[i].to_string();
        let small = |rng: &mut Rng| vec![rng.below(4) as u8];
        if i < 2 {
            match rng.below(4) {
                0 => Op::GetValue(a, n),
                1 => Op::DeleteValue(a, n),
                _ => Op::PutValue(a, n, vec![rng.below(200) as u8, rng.below(3) as u8]),
            }
        } else {
            match rng.below(6) {
                0 => Op::ReadMap(a, n),
                1 => Op::RemoveMap(a, n, small(rng)),
                2 => Op::ClearMap(a, n),
                _ => Op::UpdateMap(a, n, small(rng), vec![rng.below(200) as u8]),
            }
        }
    };
    for a in AGENTS {
        if rng.below(4) != 0 {
            hops.push(HOp::Do(Op::Open(a.to_string())));
        }
    }
    let n = rng.range(6, 18);
    for _ in 0..n {
        match rng.below(12) {
            0 => hops.push(HOp::Do(Op::Open(agent(rng)))),
            1 => hops.push(HOp::Do(Op::Close(agent(rng)))),
            2 => hops.push(HOp::Do(Op::Reopen)),
            11 if sigkills => {
                hops.push(HOp::Sigkill);
                for a in AGENTS {
                    if rng.below(5) != 0 {
                        hops.push(HOp::Do(Op::Open(a.to_string())));
                    }
                }
            }
            3..=5 => {
                let a = agent(rng);
                let op = item_op(rng, a);
                hops.push(HOp::Kill(rng.below(4), op));
                // after the process died everything is opened again
                for a in AGENTS {
                    if rng.below(5) != 0 {
                        hops.push(HOp::Do(Op::Open(a.to_string())));
                    }
                }
            }
            _ => {
                let a = agent(rng);
                hops.push(HOp::Do(item_op(rng, a)));
            }
        }
    }
    // read everything back
    hops.push(HOp::Do(Op::Reopen));
    for a in AGENTS {
        hops.push(HOp::Do(Op::Open(a.to_string())));
        for (i, n) in ITEMS.iter().enumerate() {
            hops.push(HOp::Do(if i < 2 { Op::GetValue(a.to_string(), n.to_string()) } else { Op::ReadMap(a.to_string(), n.to_string()) }));
        }
    }
    hops
}

fn main() {
    let args = parse_args();
    if let Some(dir) = args.extra.get("child") {
        child_main(PathBuf::from(dir));
    }
    silence_panics();
    let mut rng = Rng::new(args.seed ^ 0xc13_dead);
    let mut w = CaseWriter::new("From SwimV Require Import Lib.Hex Model.Stores.\nOpen Scope N_scope.", "kcase", &["kill_corr_bad", "kill_oracle_bad", "kill_spec_bad"], args.shards);
    let mut kinds: BTreeMap<String, u64> = BTreeMap::new();
    let mut failures: Vec<String> = vec![];
    let mut nontrivial = 0u64;
    let dir = std::env::temp_dir().join(format!("c13k_{}_{}", std::process::id(), args.seed));

    let o = |a: &str| HOp::Do(Op::Open(a.to_string()));
    let put = |a: &str, n: &str, v: u8| Op::PutValue(a.to_string(), n.to_string(), vec![v]);
    let mut corpus: Vec<Vec<HOp>> = vec![];
    // a new name cut off after 0, 1, 2, 3 writes, then another new name
    for k in 0..4 {
        corpus.push(vec![o("/a"), HOp::Do(put("/a", "v", 1)), HOp::Kill(k, put("/a", "w", 2)), o("/a"), HOp::Do(put("/a", "m", 3)), HOp::Do(put("/a", "w", 4)), HOp::Do(Op::GetValue("/a".into(), "v".into())), HOp::Do(Op::GetValue("/a".into(), "m".into()))]);
    }
    // an acknowledged clear (and update, remove, put) must survive the death of the process
    let upd = |a: &str, n: &str, k: u8, v: u8| HOp::Do(Op::UpdateMap(a.to_string(), n.to_string(), vec![k], vec![v]));
    corpus.push(vec![o("/a"), upd("/a", "m", 1, 1), upd("/a", "m", 2, 2), HOp::Do(Op::ClearMap("/a".into(), "m".into())), upd("/a", "m", 3, 3), HOp::Do(put("/a", "v", 9)), HOp::Sigkill, o("/a"), HOp::Do(Op::ReadMap("/a".into(), "m".into())), HOp::Do(Op::GetValue("/a".into(), "v".into()))]);
    corpus.push(vec![o("/a"), upd("/a", "m", 1, 1), HOp::Do(Op::RemoveMap("/a".into(), "m".into(), vec![1])), HOp::Do(put("/a", "v", 9)), HOp::Do(Op::DeleteValue("/a".into(), "v".into())), HOp::Sigkill, o("/a"), HOp::Do(put("/a", "w", 1)), HOp::Do(Op::ReadMap("/a".into(), "m".into())), HOp::Do(Op::GetValue("/a".into(), "v".into()))]);
    for i in 0..args.cases {
        // a third of the histories kill the process outright (a child holds the database)
        let sk = i % 3 == 0;
        corpus.push(gen(&mut rng, sk));
    }
    for hops in corpus {
        let kills = hops.iter().filter(|h| matches!(h, HOp::Kill(..) | HOp::Sigkill)).count();
        for h in &hops {
            if let HOp::Kill(k, _) = h {
                *kinds.entry(format!("kill_after_{}_writes", k)).or_default() += 1;
            }
            if matches!(h, HOp::Sigkill) {
                *kinds.entry("process_killed_outright".into()).or_default() += 1;
            }
        }
        if kills > 0 {
            nontrivial += 1;
        }
        match catch(std::panic::AssertUnwindSafe(|| run(&dir, &hops))) {
            Ok(Ok(outs)) => {
                let human = format!("history {:?} -> {:?}", hops, outs);
                w.push(format!("({}, {})", coq_list(hops.iter().map(|h| h.coq())), coq_list(outs.into_iter())), human.chars().take(3000).collect());
            }
            Ok(Err(e)) => failures.push(format!("history {:?}: {}", hops, e)),
            Err(m) => failures.push(format!("history {:?}: panic {}", hops, m)),
        }
    }
    set_write_budget(i64::MAX);
    let _ = std::fs::remove_dir_all(&dir);
    w.finish(&args.out, "cases").unwrap();
    let meta = J::obj(vec![
        ("evaluations", J::I(w.len() as i128)),
        ("distinct_nontrivial", J::I(nontrivial as i128)),
        ("rule", J::s("RocksDB back-end (open_rocks_store on a temporary directory), 3 agents x 8 items (2 values, 6 maps), histories of open / close / reopen and get / put / delete / update / remove / clear / read_map in which a quarter of the item operations are cut off after 0, 1, 2 or 3 writes to the engine (hook write budget: further writes fail unapplied; a new name writes the counter, its own entry, then the operation's entry), the database being closed and opened again afterwards; in a third of the histories the database is held by a child process that carries out the operations, acknowledges each, and is killed outright (SIGKILL) at generated moments, the next process opening the database after it: every acknowledged operation must still be there; every history ends by reading everything back after a reopen; compared with Model/Stores.v rocks_hstep, and the identifiers seen over the whole history must be one per name and never shared by two names; non-trivial = at least one kill")),
        ("structures", J::counts(&kinds)),
        ("samples", J::A(vec![])),
        ("direct_failures", J::A(failures.iter().take(40).map(|f| J::s(f.chars().take(600).collect::<String>())).collect())),
        ("direct_failure_count", J::I(failures.len() as i128)),
    ]);
    write_meta(&args.out, "meta.json", &meta);
}
