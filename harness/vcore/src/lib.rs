//! Shared plumbing for the correspondence harnesses: deterministic PRNG, Coq term printers,
//! sharded `cases_*.v` writer and a tiny JSON writer for the run's metadata.

use std::collections::BTreeMap;
use std::fmt::Write as _;
use std::path::{Path, PathBuf};

// ---------------------------------------------------------------------------------------------
// PRNG (splitmix64): every random choice of a run derives from one state.

#[derive(Clone, Debug)]
pub struct Rng(pub u64);

impl Rng {
    pub fn new(seed: u64) -> Self {
        Rng(seed ^ 0x9E37_79B9_7F4A_7C15)
    }
    pub fn fork(&mut self, salt: u64) -> Rng {
        let s = self.next_u64();
        Rng(s ^ salt.wrapping_mul(0xD1B5_4A32_D192_ED03))
    }
    pub fn next_u64(&mut self) -> u64 {
        self.0 = self.0.wrapping_add(0x9E37_79B9_7F4A_7C15);
        let mut z = self.0;
        z = (z ^ (z >> 30)).wrapping_mul(0xBF58_476D_1CE4_E5B9);
        z = (z ^ (z >> 27)).wrapping_mul(0x94D0_49BB_1331_11EB);
        z ^ (z >> 31)
    }
    /// Uniform in `0..n` (n > 0).
    pub fn below(&mut self, n: u64) -> u64 {
        if n == 0 {
            0
        } else {
            self.next_u64() % n
        }
    }
    pub fn usize_below(&mut self, n: usize) -> usize {
        self.below(n as u64) as usize
    }
    /// Inclusive range.
    pub fn range(&mut self, lo: u64, hi: u64) -> u64 {
        lo + self.below(hi - lo + 1)
    }
    pub fn chance(&mut self, num: u64, den: u64) -> bool {
        self.below(den) < num
    }
    pub fn pick<'a, T>(&mut self, xs: &'a [T]) -> &'a T {
        &xs[self.usize_below(xs.len())]
    }
    pub fn bytes(&mut self, len: usize) -> Vec<u8> {
        (0..len).map(|_| self.next_u64() as u8).collect()
    }
}

// ---------------------------------------------------------------------------------------------
// Command line.

#[derive(Clone, Debug)]
pub struct Args {
    pub seed: u64,
    pub cases: usize,
    pub out: PathBuf,
    pub tier: String,
    pub shards: usize,
    pub replay: Option<PathBuf>,
    pub extra: BTreeMap<String, String>,
}

pub fn parse_args() -> Args {
    let mut a = Args {
        seed: 1,
        cases: 100,
        out: PathBuf::from("."),
        tier: "quick".into(),
        shards: 600,
        replay: None,
        extra: BTreeMap::new(),
    };
    let mut it = std::env::args().skip(1);
    while let Some(k) = it.next() {
        let mut v = || it.next().unwrap_or_else(|| panic!("missing value for {}", k));
        match k.as_str() {
            "--seed" => a.seed = v().parse().expect("seed"),
            "--cases" => a.cases = v().parse().expect("cases"),
            "--out" => a.out = PathBuf::from(v()),
            "--tier" => a.tier = v(),
            "--shards" => a.shards = v().parse().expect("shards"),
            "--replay" => a.replay = Some(PathBuf::from(v())),
            other if other.starts_with("--") => {
                let val = v();
                a.extra.insert(other[2..].to_string(), val);
            }
            other => panic!("unexpected argument {}", other),
        }
    }
    a
}

// ---------------------------------------------------------------------------------------------
// Coq term printers.

pub fn coq_n(n: u128) -> String {
    format!("{}%N", n)
}
pub fn coq_z(n: i128) -> String {
    if n < 0 {
        format!("({})%Z", n)
    } else {
        format!("{}%Z", n)
    }
}
pub fn coq_nat(n: usize) -> String {
    assert!(n < 5000, "nat literal too large");
    format!("{}%nat", n)
}
pub fn coq_bool(b: bool) -> String {
    if b { "true" } else { "false" }.to_string()
}
pub fn coq_list<I: IntoIterator<Item = String>>(items: I) -> String {
    let mut s = String::from("[");
    let mut first = true;
    for it in items {
        if !first {
            s.push_str("; ");
        }
        first = false;
        s.push_str(&it);
    }
    s.push(']');
    s
}
pub fn coq_option(o: Option<String>) -> String {
    match o {
        Some(s) => format!("(Some {})", s),
        None => "None".to_string(),
    }
}
pub fn coq_pair(a: &str, b: &str) -> String {
    format!("({}, {})", a, b)
}
/// Byte string as `(hex "0a1b")` : list N (decoded by `SwimV.Lib.Hex.hex`).
pub fn coq_bytes(bs: &[u8]) -> String {
    let mut s = String::with_capacity(bs.len() * 2 + 8);
    s.push_str("(hex \"");
    for b in bs {
        write!(s, "{:02x}", b).unwrap();
    }
    s.push_str("\")");
    s
}
pub fn hex_of(bs: &[u8]) -> String {
    let mut s = String::with_capacity(bs.len() * 2);
    for b in bs {
        write!(s, "{:02x}", b).unwrap();
    }
    s
}

// ---------------------------------------------------------------------------------------------
// Tiny JSON.

#[derive(Clone, Debug)]
pub enum J {
    Null,
    B(bool),
    I(i128),
    S(String),
    A(Vec<J>),
    O(Vec<(String, J)>),
}

impl J {
    pub fn s<T: Into<String>>(t: T) -> J {
        J::S(t.into())
    }
    pub fn obj<K: Into<String>>(kv: Vec<(K, J)>) -> J {
        J::O(kv.into_iter().map(|(k, v)| (k.into(), v)).collect())
    }
    pub fn counts<K: ToString>(m: &BTreeMap<K, u64>) -> J {
        J::O(m.iter().map(|(k, v)| (k.to_string(), J::I(*v as i128))).collect())
    }
    pub fn render(&self) -> String {
        let mut s = String::new();
        self.w(&mut s);
        s
    }
    fn w(&self, out: &mut String) {
        match self {
            J::Null => out.push_str("null"),
            J::B(b) => out.push_str(if *b { "true" } else { "false" }),
            J::I(i) => write!(out, "{}", i).unwrap(),
            J::S(s) => {
                out.push('"');
                for c in s.chars() {
                    match c {
                        '"' => out.push_str("\\\""),
                        '\\' => out.push_str("\\\\"),
                        '\n' => out.push_str("\\n"),
                        '\r' => out.push_str("\\r"),
                        '\t' => out.push_str("\\t"),
                        c if (c as u32) < 0x20 => write!(out, "\\u{:04x}", c as u32).unwrap(),
                        c => out.push(c),
                    }
                }
                out.push('"');
            }
            J::A(v) => {
                out.push('[');
                for (i, x) in v.iter().enumerate() {
                    if i > 0 {
                        out.push(',');
                    }
                    x.w(out);
                }
                out.push(']');
            }
            J::O(v) => {
                out.push('{');
                for (i, (k, x)) in v.iter().enumerate() {
                    if i > 0 {
                        out.push(',');
                    }
                    J::S(k.clone()).w(out);
                    out.push(':');
                    x.w(out);
                }
                out.push('}');
            }
        }
    }
}

// ---------------------------------------------------------------------------------------------
// Sharded cases writer.
//
// Every case is one Coq term `(idx, payload)`; the shard file ends with
// `Eval vm_compute in (<checker> cases).` which must print the list of failing indices.

pub struct CaseWriter {
    pub header: String,
    pub case_type: String,
    /// One or more checker expressions, each a function `list (N * case_type) -> list N`.
    pub checkers: Vec<String>,
    pub shards: usize,
    cases: Vec<(String, String)>,
}

impl CaseWriter {
    pub fn new(header: &str, case_type: &str, checkers: &[&str], shards: usize) -> Self {
        CaseWriter {
            header: header.to_string(),
            case_type: case_type.to_string(),
            checkers: checkers.iter().map(|s| s.to_string()).collect(),
            shards: shards.max(1),
            cases: Vec::new(),
        }
    }
    pub fn len(&self) -> usize {
        self.cases.len()
    }
    pub fn is_empty(&self) -> bool {
        self.cases.is_empty()
    }
    /// `term` is the Coq payload; `human` a one-line JSON-ish description kept for replays.
    pub fn push(&mut self, term: String, human: String) -> usize {
        self.cases.push((term, human));
        self.cases.len() - 1
    }
    pub fn finish(&self, out: &Path, prefix: &str) -> std::io::Result<()> {
        std::fs::create_dir_all(out)?;
        let n = self.cases.len();
        // `shards` is interpreted as the maximum number of cases per shard file: small files
        // keep coqc's elaboration time linear and parallelise well.
        let per = self.shards.max(1);
        let shards = ((n + per - 1) / per).max(1);
        for s in 0..shards {
            let lo = s * per;
            let hi = ((s + 1) * per).min(n);
            if lo >= hi && s > 0 {
                continue;
            }
            let mut f = String::new();
            f.push_str(&self.header);
            f.push('\n');
            writeln!(f, "Definition cases : list (N * ({})) := [", self.case_type).unwrap();
            for i in lo..hi {
                let sep = if i + 1 < hi { ";" } else { "" };
                writeln!(f, "  ({}%N, {}){}", i, self.cases[i].0, sep).unwrap();
            }
            f.push_str("].\n");
            for (k, c) in self.checkers.iter().enumerate() {
                writeln!(f, "Definition result_{} := Eval vm_compute in ({} cases).", k, c).unwrap();
                writeln!(f, "Print result_{}.", k).unwrap();
            }
            std::fs::write(out.join(format!("{}_{:04}.v", prefix, s)), f)?;
        }
        // Human-readable index for replays.
        let mut h = String::new();
        for (i, (_, human)) in self.cases.iter().enumerate() {
            writeln!(h, "{}\t{}", i, human).unwrap();
        }
        std::fs::write(out.join(format!("{}_index.tsv", prefix)), h)?;
        Ok(())
    }
}

pub fn write_meta(out: &Path, name: &str, meta: &J) {
    std::fs::create_dir_all(out).unwrap();
    std::fs::write(out.join(name), meta.render()).unwrap();
}

/// Run a closure catching panics; returns Err(message) on panic.
pub fn catch<R>(f: impl FnOnce() -> R + std::panic::UnwindSafe) -> Result<R, String> {
    match std::panic::catch_unwind(f) {
        Ok(r) => Ok(r),
        Err(e) => {
            let msg = if let Some(s) = e.downcast_ref::<&str>() {
                s.to_string()
            } else if let Some(s) = e.downcast_ref::<String>() {
                s.clone()
            } else {
                "panic".to_string()
            };
            Err(msg)
        }
    }
}

pub fn silence_panics() {
    std::panic::set_hook(Box::new(|_| {}));
}
