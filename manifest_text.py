"""Free-text parts of MANIFEST.json (kept next to props.py; tools/mkmanifest combines them)."""

HOOK_COMMITS = ["ee93ed3", "2b1baea"]

_PENDING = "not yet claimed: the model/theorems for this property are still being built (see DESIGN.md section 6 build order); not a statement that the technique cannot apply"

NOT_APPLICABLE = {p: _PENDING for p in
                  ["C01", "C02", "C03", "C04", "C05", "C06", "C07", "C08", "C09", "C10", "C11", "C13",
                   "C14", "C15", "C16", "C18", "C19"]}

TEXT = {
    "C17": dict(
        technique="Coq proof: inductive invariant over all interleavings of atomic micro-steps (fetch_or / load / CAS) for any n>=2 parties + lock-step correspondence of the real Voter/Receiver with the model (exhaustive to depth, random beyond)",
        level="Machine-checked theorems (Props/C17.v, 12 theorems, no axioms) over an executable model of timeout_coord at atomic granularity: every schedule, every number of parties >= 2, unbounded length. They state: receiver ready iff all votes outstanding at once; unanimity never undone; vote result truthful; rescind=Pending implies not begun and cannot begin until that party votes again; rescind=Unanimous implies ready; drop counts as a permanent vote; no deadlock; rescind loop progress. The model is tied to the code by running the real Voter/Receiver on every op list to a depth bound (2 and 3 parties) plus random lists and comparing each result with the model's atomic API-level run, and by an independent property oracle on the implementation's trace.",
        note="Trusted: Coq kernel + vm_compute; the hand-written model and the Rust harness; single-location atomics modelled as interleaving (adequate for one AtomicU8); AtomicWaker. The implementation is only exercised single-threaded (each call atomic); interleavings inside rescind are covered by the theorems about the model only. A genuine defect (rescind did not clear `voted`) was found by this check and repaired in /repo commit 921e757 (KNOWN_FINDINGS.txt).",
    ),
    "C12": dict(
        technique="Coq proof: inductive invariant (FIFO ghost logs, capacity, single-waker-slot parking discipline) over all poll sequences + per-op lock-step correspondence of the real byte channel (results and wake counts), exhaustive to a depth bound",
        level="Machine-checked theorems (Props/C12.v, 10 theorems, no axioms) over an executable model of Conduit/ByteReader/ByteWriter including the coop budget layer, for every capacity >= 1 and every op list: reads ++ buffered = writes (prefix, order, no loss/duplication), buffered <= capacity, Pending implies parked-with-waker-in-slot or self-wake, a parked side is woken by any step that falsifies its wait condition or closes the channel, close is permanent, writes fail after close, reads drain then EOF. Tied to the code by hand-polling the real channel with counting wakers on every op list to a depth bound over capacities 1..3 plus random lists (cap <= 64, budget changes), comparing result and per-side wake counts after every op, and by an independent FIFO/wait-set oracle on the implementation trace.",
        note="Trusted: Coq kernel + vm_compute; model + harness; the mutex makes a poll atomic; wakers deliver. Ghost fields (written/readlog/parked) are never read by transitions. Memory-level concurrency inside a poll is out of scope.",
    ),
    "C20": dict(
        technique="Coq proof: inductive invariant (reported counts = sizes of the link sets) over all operation sequences of the Links registry + interleaving proof of counter conservation at atomic granularity; lock-step correspondence of the real Links/UplinkReporter with the model and an independent reference-relation oracle; multi-thread stress of the real counters",
        level="Machine-checked theorems (Props/C20.v, 7 theorems, no axioms): for every sequence of register/insert/remove/remove_remote/remove_lane/remove_all/count/snapshot operations the total equals the number of (lane, remote) links held, each lane reader reports exactly |remotes of that lane|, the aggregate reader reports exactly the number of links; broadcast counts |linked remotes| and a targeted event counts 1 on lane and aggregate cells; and for the atomic counters, under every interleaving of load/CAS micro-steps from any number of threads (spurious CAS failures included) value + sum of snapshots = total counted below saturation. Tied to the code by running the real Links with real UplinkReporters/readers on generated op lists (per-op outputs compared) and by a reference-relation oracle on the implementation trace; the atomics are additionally stressed from 4 threads with the sum check.",
        note="Trusted: Coq kernel + vm_compute; model + harness. forward/backwards agreement and query answers are covered by correspondence + oracle, not by a theorem yet. A genuine defect (remove_remote dropped the lane's reporter) was found and repaired in /repo commit 4468261 (KNOWN_FINDINGS.txt).",
    ),
}
