"""Per-property configuration of ./check (see DESIGN.md section 4)."""

COMMON_TRUSTED = [
    "Coq 8.16.1 kernel + vm_compute (no native_compute, no extraction)",
    "hand-written Gallina model tied to /repo by the correspondence harness (Rust driver, Coq-term printer, ./check)",
]

PROPS = {
    "C17": dict(
        coq_targets=["Props/C17.vo"],
        harness=[dict(pkg="h_prims", bin="c17", cases={"quick": 400, "thorough": 6000},
                      extra={"quick": {"depth": 4}, "thorough": {"depth": 6}},
                      checkers=["corr", "oracle", "corr_wake", "oracle_wake"])],
        allowed_axioms=[],
        trusted_base=[
            "interleaving semantics over one atomic location (single modification order of `flags`); futures::task::AtomicWaker is modelled as a slot holding at most one waker with atomic register / wake (its internal REGISTERING / WAKING protocol is trusted)",
            "hook: swimos_runtime feature `verif` re-exports timeout_coord::{Voter, Receiver, ...}",
        ],
        assumptions=[
            "correspondence runs the real Voter/Receiver single-threaded: every API call is atomic there; interleavings between the load and the CAS of the n-party rescind loop are covered by the theorems only",
            "2 and 3 parties on the implementation (the only instantiations the runtime uses); theorems hold for every n >= 2",
        ],
    ),
    "C12": dict(
        coq_targets=["Props/C12.vo"],
        harness=[dict(pkg="h_prims", bin="c12", cases={"quick": 1500, "thorough": 20000},
                      extra={"quick": {"depth": 3}, "thorough": {"depth": 4}},
                      checkers=["corr", "oracle"])],
        allowed_axioms=[],
        trusted_base=[
            "parking_lot::Mutex makes each poll atomic (one poll = one model step); BytesMut as a byte list; Waker delivery",
            "no hook needed (swimos_byte_channel public API, default feature `coop`)",
        ],
        assumptions=[
            "implementation driven single-threaded by hand-polling; the model's interleavings are exactly sequences of polls",
            "feature `coop` on (the default used by the runtime); the non-coop build is not exercised",
        ],
    ),
    "C20": dict(
        coq_targets=["Props/C20.vo"],
        harness=[dict(pkg="h_prims", bin="c20", cases={"quick": 1500, "thorough": 25000},
                      checkers=["corr", "oracle"])],
        allowed_axioms=[],
        trusted_base=[
            "HashMap/HashSet as association lists / sorted sets (iteration order canonicalised on both sides)",
            "a lane's reporter cell is modelled inside the lane's entry (Arc sharing with readers = access paths)",
            "hook: swimos_runtime feature `verif` re-exports agent::task::links::{Links, TriggerUnlink}",
        ],
        assumptions=[
            "lane ids are fresh at registration (register_lane is the only caller of register_reporter); a reporter attached to a lane that already has links is outside the theorem (ok_op)",
            "reporters exist for all lanes iff the aggregate reporter exists (as the runtime configures them)",
            "u64 overflow of the link total (2^64 links) is not modelled; counter saturation is, and excluded by hypothesis in C20_counters_lose_nothing",
            "forward/backwards index agreement is checked by correspondence + oracle only (not yet a theorem)",
        ],
    ),
    "C18": dict(
        coq_targets=["Props/C18.vo", "Oracle/C18.vo"],
        harness=[dict(pkg="h_prims", bin="c18", cases={"quick": 2500, "thorough": 40000},
                      checkers=["corr", "oracle", "known"])],
        allowed_axioms=[],
        trusted_base=[
            "nom combinators (the RouteUri model follows the grammar they implement); percent_encoding crate (algorithm modelled, every byte value swept)",
            "strings as UTF-8 byte lists; the automata branch only on ASCII so bytes = chars",
            "no hook needed (swimos_route public API)",
        ],
        assumptions=[
            "decode_utf8_lossy is not modelled: cases whose decoded parts are not valid UTF-8 compare match/no-match only",
            "C18_apply_unapply_partial: the RouteUri parse of the produced route string into (scheme, path) is tied by correspondence only",
            "known finding C18-F1 (patterns outside the URI grammar) is excluded from the round-trip oracle by the decidable predicate known_not_uri_clean",
        ],
    ),
    "C19": dict(
        coq_targets=["Props/C19.vo"],
        harness=[dict(pkg="h_prims", bin="c19", cases={"quick": 2500, "thorough": 12000},
                      checkers=["corr", "oracle", "known"], timeout=2400)],
        allowed_axioms=[
            # standard-library axioms behind Flocq's binary64 (Reals + classical logic); they enter
            # through the definitions of the float operations that vcmp / veq / vhash mention
            "ClassicalDedekindReals.sig_not_dec", "ClassicalDedekindReals.sig_forall_dec",
            "FunctionalExtensionality.functional_extensionality_dep", "Classical_Prop.classic",
        ],
        trusted_base=[
            "Flocq 4 binary64 (IEEE754.BinarySingleNaN/Binary/Bits) as the meaning of f64: `as f64` = binary_normalize mode_NE, partial_cmp = Bcompare, x - y = Bminus mode_NE; standard-library axioms classic, functional_extensionality_dep, sig_not_dec, sig_forall_dec (via Flocq/Reals)",
            "num-bigint as Z; BigInt::to_f64 and f64::from_str(to_string) as correctly rounded conversions",
            "hash compared as equality of recorded hasher input streams (model: token lists)",
            "no hook needed (swimos_model public API)",
        ],
        assumptions=[
            "theorems cover values without Float64 (recursively); with floats the ordering laws are refuted (C19_F1_*_refuted) and recorded as known finding C19-F1; equality/hash laws on floats are checked by the oracle only",
        ],
    ),
    "C10": dict(
        coq_targets=["Props/C10.vo"],
        harness=[dict(pkg="h_codec", bin="c10", cases={"quick": 450, "thorough": 6000},
                      checkers=["corr", "oracle"], timeout=2400),
                 dict(pkg="h_codec", bin="c10n", cases={"quick": 150, "thorough": 1500},
                      checkers=["corr"], timeout=2400)],
        allowed_axioms=[],
        trusted_base=[
            "bytes::BytesMut as a byte list; tokio_util FramedRead modelled as: append chunk, decode until Ok(None)",
            "usize = 64 bits; the harness is built with overflow checks (debug semantics for arithmetic)",
            "UTF-8 validation of names modelled as ASCII (the harness generates ASCII names and single bytes >= 0x80 as the invalid case)",
            "no hook needed (public encoders/decoders of swimos_agent_protocol, swimos_messages, swimos_utilities::encoding)",
        ],
        assumptions=[
            "theorems: generic streaming theorem; frame specs + any-chunking for WithLengthBytes, RawMapOperation, RawMapMessage, lane request/response over the three inner layers; no-panic for all modelled decoders except the command decoder. Store, downlink-operation, command and routed-message codecs: correspondence + oracle only",
            "typed (Recon-bodied) codecs are outside the model (their bodies are C09's subject): the downlink notification codec and the typed map operation / map message / lane request / lane response codecs are checked on the real code only (h_codec/c10n: every sequence under every single split point, one byte per read and random multi-splits must decode to exactly what was encoded, the last frame without any byte after it, nothing left over; byte mutations must not panic or hang)",
            "decode_eof is not exercised",
        ],
    ),
    "C13": dict(
        coq_targets=["Props/C13.vo"],
        harness=[dict(pkg="h_store", bin="c13", cases={"quick": 300, "thorough": 4000},
                      checkers=["corr", "oracle", "known"], timeout=2400)],
        allowed_axioms=[],
        trusted_base=[
            "RocksDB as three finite maps with seek + prefix_same_as_start over the fixed 8-byte prefix extractor and half-open delete_range; durability of acknowledged writes; the varint coding of ids and the merge operator are trusted (tied by correspondence across reopen)",
            "HashMap / BTreeMap as association lists (read_map compared as sorted lists)",
            "hook: swimos_server_app feature `verif` re-exports in_memory_store::{InMemoryPlanePersistence, InMemoryNodePersistence}",
        ],
        assumptions=[
            "theorems cover the RocksDB key layout (injectivity, scan and range exactness, prefix stripping), lane isolation inside the map keyspace and identifier stability/uniqueness; the refinement of both back-ends to the (agent, item) -> value|map specification is checked by correspondence + oracle only (partial)",
            "ids < 2^56 for the prefix scan (the allocator hands out at most one id per id_for call)",
            "crash (SIGKILL) points are not exercised; reopen = drop the database handle and open the plane again",
            "known finding C13-F1: '<agent>/<item>' names collide for distinct pairs when names contain '/'; histories with colliding pairs are excused by the decidable predicate name_collision",
        ],
    ),
    "C02": dict(
        coq_targets=["Props/C02.vo", "Model/Uplinks.vo"],
        harness=[dict(pkg="h_agent", bin="c02", cases={"quick": 600, "thorough": 8000},
                      checkers=["corr", "oracle"], timeout=1800),
                 dict(pkg="h_agent", bin="c02l", cases={"quick": 600, "thorough": 6000},
                      checkers=["corr", "oracle"], timeout=1800),
                 dict(pkg="h_agent", bin="c04", cases={"quick": 300, "thorough": 4000},
                      checkers=["corr", "oracle"], timeout=2400)],
        allowed_axioms=[],
        trusted_base=[
            "the runtime's per-remote map uplink (Uplinks: the MapOperationQueue is popped one operation per write and the lane re-queued while it has data) is exercised by the write-task harness c04 (shared with C01 / C03 / C04 / C14), whose model is Model/Uplinks.v",
            "HashMap / BTreeMap / VecDeque as association lists and lists (HashMap::insert and BTreeMap::insert keep the key object already present); slice::sort_by as a stable insertion sort (any correct stable sort gives the same list; C02_drop_take_order_independent)",
            "a key is (class, spelling): the harness key pools are built from the real Eq / Ord / Hash of swimos_model::Value and the real compare_recon_values, asserted at start-up (classes ==, class index = rank in Value::cmp, equal keys hash alike)",
            "usize epochs are 64 bit (wrapping arithmetic written out mod 2^64; the real queues are started at epochs at and near usize::MAX through the verif_with_head_epoch hook)",
            "hooks: swimos_agent feature `verif` re-exports event_queue::EventQueue and lanes::queues::{WriteQueues, ToWrite}; swimos_runtime feature `verif` re-exports backpressure::MapOperationQueue; both add verif_with_head_epoch constructors; the lane-level harness uses public API only",
        ],
        assumptions=[
            "fewer than 2^64 operations per run (len ops + 1 < W)",
            "theorems cover: both coalescing queues for every push/pop interleaving and starting epoch; the lane's command handlers + write path for a consumer of standard events; take/drop key designation and exact removal. Checked by correspondence + oracle only (partial): per-remote sync replicas (SyncEvent / Synced), HashMap iteration order of sync requests (not generated), the composition agent queue -> byte channel -> runtime MapOperationQueue -> remote, task interleavings of the agent runtime",
            "the ghost value carried by a queued update in the lane model is never observed; C02_queued_value_is_current proves it equals the map value read at write time",
        ],
    ),
    "C14": dict(
        coq_targets=["Props/C14.vo", "Model/Uplinks.vo"],
        harness=[dict(pkg="h_agent", bin="c14", cases={"quick": 300, "thorough": 4000},
                      checkers=["corr", "oracle"], timeout=2400),
                 # the per-remote uplinks of a supply lane (queue while a write is in flight, syncs interleaved):
                 # the Uplinks model and its protocol oracle carry the supply clause (exactly once, in order)
                 dict(pkg="h_agent", bin="c04", cases={"quick": 300, "thorough": 2500},
                      checkers=["corr", "oracle"], timeout=2400)],
        allowed_axioms=[],
        trusted_base=[
            "commands as records (target, body): a lane buffer is a list of records and its offset a record index (the real byte offset always lies on a record boundary); frames are decoded in the harness with the real RawRequestMessageDecoder / ValueLaneResponseDecoder",
            "byte channel of capacity 1 per target: a write never completes before the target reads (frames are longer than one byte), write_all delivers the buffer's bytes in order; tokio current-thread scheduling is used only to reach quiescence between harness steps",
            "HashMap / VecDeque as association lists / lists",
            "hooks: swimos_runtime feature `verif` re-exports external_links_task, LinksTaskState, LinksTaskConfig, NoReport, ExternalLinkRequest, CommandChannelRequest and the backpressure strategies",
        ],
        assumptions=[
            "the uplink side of supply lanes (Uplinks::replace_and_pop, supply arm) is exercised through the harness shared with C04 (Model/Uplinks.v: correspondence + protocol oracle with the supply clause: every item exactly once, in order, per linked remote); its theorems are stated under C04 / C01 / C03",
            "theorems cover SupplyLane, SupplyBackpressure and CommandOutput/CmdChannelWriter under every order of appends, channel openings and write completions; the command path of the real external_links_task is tied to the model by correspondence + oracle (targets stalled, opened late, drained) (partial)",
            "not modelled: the supply uplink's re-queueing inside the write task (Uplinks / has_data loop), dispatch of command envelopes to command-lane handlers (read task needs_flush + agent model loop), channel failures / retries / timeouts of the ad hoc outputs",
            "body lengths below 2^64 for the supply buffer",
        ],
    ),
    "C08": dict(
        coq_targets=["Props/C08.vo"],
        harness=[dict(pkg="h_agent", bin="c08", cases={"quick": 400, "thorough": 6000},
                      checkers=["corr", "oracle", "known"], timeout=2400)],
        allowed_axioms=[],
        trusted_base=[
            "keys and values are numbers (harness: i32 keys >= 0 and i32 values); a map is its sorted association list (BTreeMap; the hosted HashMap through its sorted view; its take/drop order is the Recon order of the keys = numeric order for these keys)",
            "notifications are fed as encoded frames through the real byte channels and decoders; between notifications the harness lets the task run until idle (client) / pumps await_ready + next_event until nothing is ready (hosted)",
            "hook: swimos_agent feature `verif` re-exports the hosted MapDownlinkFactory / ValueDownlinkFactory",
        ],
        assumptions=[
            "theorems are about legal notification sequences (decidable predicate legal / vlegal); arbitrary sequences are covered by correspondence only (no panic, model = implementation)",
            "event downlinks are not modelled; decode failures (on_failed) and the stop trigger are not generated",
            "known finding C08-F1: hosted Drop n with n >= |map| fires on_clear instead of per-entry on_remove; sequences in the decidable class has_whole_drop are excused for the hosted implementation only",
        ],
    ),
    "C04": dict(
        coq_targets=["Props/C04.vo"],
        harness=[dict(pkg="h_agent", bin="c04", cases={"quick": 300, "thorough": 5000},
                      checkers=["corr", "oracle"], timeout=2400),
                 dict(pkg="h_agent", bin="c01p", cases={"quick": 300, "thorough": 4000},
                      checkers=["corr", "oracle", "corr_bridge"], timeout=2400)],
        allowed_axioms=[],
        trusted_base=[
            "the link-protocol grammar theorems are about the value-lane pipeline model (Model/ValuePipeline.v: lane object, response routing, per-remote uplink specialised to one value lane, link / unlink / unlink_all), which is compared in lock step with the real ValueLane + ResponseReceiver + WriteTaskState (harness c01p) and with the general write-task model; lane-not-found answers, lane failure and map / supply lanes are covered by the general model's theorems and the c04 harness only",
            "lanes and remotes are numbers; value / supply bodies are byte strings (possibly empty), map events are entries of the C02 queue model rendered as Recon on the wire and parsed back by the harness; Links is abstracted to the set of (lane, remote) pairs (its bookkeeping is C20's subject)",
            "each remote's channel has room for everything: a WriteTask future completes when it is run; `remote speed' is where the write completions (Done) are placed in the operation sequence",
            "the order in which unlink_all walks the links is a hash-map order: model and implementation are compared per remote and lane",
            "hook: swimos_runtime feature `verif` WriteState wrapper over WriteTaskState (its operations one at a time) and re-exports of WriteTask, UplinkResponse, LaneData, RemoteSender",
        ],
        assumptions=[
            "theorems cover the per-remote Uplinks structure under every order of pushes, special actions and writer returns (tasks justified by what lanes produced, one write at a time, special actions first and in order); the (remote, lane) link state machine over several remotes - linked/unlinked rounds, implicit links, lane-not-found, lane removal, unlink-all, remote removal - is checked on the real WriteTaskState by correspondence + an independent protocol oracle (partial)",
            "a repeated link request on an already linked lane is answered by another linked frame: the oracle counts one linked per accepted link request (read as allowed by the WARP state machine)",
            "not modelled: the read task (envelope routing, needs_flush), pruning of idle remotes, failures of a remote's channel, agent stop"
        ],
    ),
    "C01": dict(
        coq_targets=["Props/C01.vo"],
        harness=[dict(pkg="h_agent", bin="c04", cases={"quick": 300, "thorough": 5000},
                      checkers=["corr", "oracle"], timeout=2400),
                 dict(pkg="h_agent", bin="c01p", cases={"quick": 400, "thorough": 6000},
                      checkers=["corr", "oracle", "corr_bridge"], timeout=2400),
                 dict(pkg="h_agent", bin="c01e", cases={"quick": 150, "thorough": 1500},
                      checkers=["oracle"], timeout=3000),
                 dict(pkg="h_agent", bin="c01w", cases={"quick": 100, "thorough": 1000},
                      checkers=["corr", "oracle"], timeout=3000)],
        allowed_axioms=[],
        trusted_base=[
            "lanes and remotes are numbers; value / supply bodies are byte strings (possibly empty), map events are entries of the C02 queue model rendered as Recon on the wire and parsed back by the harness; Links is abstracted to the set of (lane, remote) pairs (its bookkeeping is C20's subject)",
            "each remote's channel has room for everything: a WriteTask future completes when it is run; `remote speed' is where the write completions (Done) are placed in the operation sequence",
            "the order in which unlink_all walks the links is a hash-map order: model and implementation are compared per remote and lane",
            "hook: swimos_runtime feature `verif` WriteState wrapper over WriteTaskState (its operations one at a time) and re-exports of WriteTask, UplinkResponse, LaneData, RemoteSender",
        ],
        assumptions=[
            "theorems cover the runtime side per remote for any mix of lanes (an event written for a value lane carries the lane's latest value, a newer value replaces the pending one) and one value lane end to end for any number of remotes (Model/ValuePipeline.v: the lane object's dirty flag and sync queue, write_to_buffer, response routing, each remote's uplink specialised to one value lane): every remote's frames are an ordered gap-tolerant view of the lane's history, and a linked remote ends with the current value at quiescence",
            "the single-lane runtime model of Model/ValuePipeline.v is compared with the general write-task model of Model/Uplinks.v on every generated case (vp_bridge_bad) and both with the implementation; stale write-queue entries (which write nothing) are not represented in the specialised model",
            "second harness (c01p): real ValueLane (handlers ValueLaneSet / ValueLaneSync, write_to_buffer) -> byte channel -> the runtime's real ResponseReceiver -> real WriteTaskState::handle_event -> WriteTask futures -> RawResponseMessageDecoder, in lock step with the model; third harness (c01e): the whole stack (AgentRouteTask::run_agent + AgentModel) under its own schedule with small buffers and slow readers, histories recorded by on_set, the view / current-value predicates of the theorems evaluated in Coq on what the remotes read",
            "fourth harness (c01w): the agent task's own loop records its write bookkeeping (hook verif_trace, thread-local, recorded only when the harness asks): the trace of a run of the real runtime + agent must be a run of Model/WriteLoop.v; what an item answers when asked to write is taken from the trace (an input of the model)",
            "not modelled: command decoding; the task interleavings of the agent runtime (exercised by c01e only); `settled' in c01e is decided by the harness: the remote had read its linked frame before the lane's last change was commanded and has not asked to unlink since; quiescence is waited for at most 8 s"
        ],
    ),
    "C03": dict(
        coq_targets=["Props/C03.vo", "Model/MapLane.vo"],
        harness=[dict(pkg="h_agent", bin="c04", cases={"quick": 300, "thorough": 5000},
                      checkers=["corr", "oracle"], timeout=2400),
                 dict(pkg="h_agent", bin="c01p", cases={"quick": 300, "thorough": 4000},
                      checkers=["corr", "oracle", "corr_bridge"], timeout=2400),
                 dict(pkg="h_agent", bin="c02l", cases={"quick": 400, "thorough": 4000},
                      checkers=["corr", "oracle"], timeout=1800)],
        allowed_axioms=[],
        trusted_base=[
            "lanes and remotes are numbers; value / supply bodies are byte strings (possibly empty), map events are entries of the C02 queue model rendered as Recon on the wire and parsed back by the harness; Links is abstracted to the set of (lane, remote) pairs (its bookkeeping is C20's subject)",
            "each remote's channel has room for everything: a WriteTask future completes when it is run; `remote speed' is where the write completions (Done) are placed in the operation sequence",
            "the order in which unlink_all walks the links is a hash-map order: model and implementation are compared per remote and lane",
            "hook: swimos_runtime feature `verif` WriteState wrapper over WriteTaskState (its operations one at a time) and re-exports of WriteTask, UplinkResponse, LaneData, RemoteSender",
        ],
        assumptions=[
            "theorems cover what the runtime writes for a sync answer (value: the pending value and the synced leave in one write, value first, or the synced alone; map: the whole queue then synced; everything written was produced by the lane); the consistency of the snapshot with the lane over several remotes, implicit links and concurrent syncs is checked by correspondence + oracle on the real WriteTaskState, and the lane side of a map sync by C02's lane harness (partial)",
            "not modelled: the read task's handling of sync envelopes and the lane-side value sync"
        ],
    ),
    "C09": dict(
        coq_targets=["Props/C09.vo", "Model/ReconNum.vo"],
        harness=[dict(pkg="h_recon", bin="c09", cases={"quick": 300, "thorough": 3000},
                      checkers=["corr"], timeout=2400),
                 dict(pkg="h_recon", bin="c09n", cases={"quick": 600, "thorough": 6000},
                      checkers=["corr"], timeout=2400)],
        allowed_axioms=[],
        trusted_base=[
            "a text is a list of Unicode scalar values; Rust `char` ranges and `to_digit(16)` as the model's numeric ranges; the identifier ranges are copied from identifier.rs and tied by correspondence on their boundary code points",
            "the structural printer / parser (records, attributes, numbers, blobs, layouts), the incremental decoder and the typed recognizers are NOT modelled: they are checked by oracles that run only the real code (print -> parse -> compare, every cut position, typed round trips, mutated inputs)",
        ],
        assumptions=[
            "theorems cover the text-token layer (every text printed by write_string_literal reads back exactly; the escape automaton inverts escape_text; surrogate escapes are rejected); everything structural is oracle-checked only (partial)",
            "floats are finite; the oracle compares parsed values with == for the first cycle and exactly (Debug form) for the fixed point",
            "known findings C09-F1..F3: three shapes of records (decidable predicate known_class in the harness) whose printed form does not read back; failures on values in those classes are counted as known-finding reproductions, any other failure is a violation",
        ],
    ),
    "C15": dict(
        coq_targets=["Props/C15.vo", "Model/ReconNum.vo"],
        harness=[dict(pkg="h_recon", bin="c15", cases={"quick": 400, "thorough": 5000},
                      checkers=["corr"], timeout=2400),
                 dict(pkg="h_recon", bin="c09n", cases={"quick": 600, "thorough": 6000},
                      checkers=["corr"], timeout=2400)],
        allowed_axioms=[],
        trusted_base=[
            "for a single text-like token compare_recon_values compares one TextValue / BooleanValue event carrying the un-escaped content (model: key_token); tied to the code by correspondence on generated spellings (bare, quoted, \\u-escaped, padded, damaged)",
            "for arbitrary Recon the comparator, the hasher and the parser are NOT modelled: an oracle runs only the real code and compares compare_recon_values / recon_hash with the equality of the parsed values (swimos_model::Value ==, the subject of C19)",
        ],
        assumptions=[
            "theorems cover text keys (printed forms compare as the texts, bare and quoted spellings agree); records, numbers, blobs and attribute bodies are oracle-checked only (partial)",
            "the one-shot parser ignores input after a complete top-level value (`1 2` parses as 1); the oracle takes the parser's verdict as the meaning of `valid Recon`",
        ],
    ),
    "C11": dict(
        coq_targets=["Props/C11.vo"],
        harness=[dict(pkg="h_recon", bin="c11", cases={"quick": 400, "thorough": 5000},
                      checkers=["corr", "oracle"], timeout=2400),
                 dict(pkg="h_recon", bin="c11s", cases={"quick": 500, "thorough": 8000},
                      checkers=["corr", "oracle"], timeout=2400)],
        allowed_axioms=[],
        trusted_base=[
            "dispatch (Model/SocketDispatch.v, harness c11s): nodes, lanes, downlinks and bodies are numbers (the harness's name pools include names that need quoting; every message of a case has its own body); the real RemoteTask runs over an in-memory web socket (ratchet over tokio's duplex), the harness is the peer, the plane (FindNode) and the owner of the attached downlinks; after every message the tasks are given time until nothing new arrives, so concurrency between sources is not exercised",
            "strings are lists of Unicode scalar values; the header matcher is modelled for headers whose slot values are text-like or numeric tokens (everything the encoder produces, plus rate / prio); other value shapes in a header are outside the model and not generated",
            "hook: swimos_remote feature `verif` re-exports task::envelopes::ReconEncoder",
        ],
        assumptions=[
            "the theorem covers the text encoding of the eight link-level envelope kinds for every node, lane and body; correspondence ties both directions to the code, the direct oracle re-reads what the real encoder wrote",
            "the dispatch theorems say that the task's node -> lane -> writers tables (with their clean-up) refine a plain registration list: a response reaches exactly the live downlinks attached for its node and lane, a request the agent of its node or a not-found answer, nothing is delivered after an invalid frame",
            "not modelled: fairness between the sources sharing a socket (multi reader), auth / deauth, web socket framing (partial)",
            "the reader skips blanks in front of the body: bodies are compared up to leading blanks",
        ],
    ),
    "C16": dict(
        coq_targets=["Props/C16.vo"],
        harness=[dict(pkg="h_recon", bin="c16", cases={"quick": 300, "thorough": 4000},
                      checkers=["corr"], timeout=2400),
                 dict(pkg="h_recon", bin="c16r", cases={"quick": 250, "thorough": 2500},
                      checkers=["corr"], timeout=2400),
                 dict(pkg="h_recon", bin="c16d", cases={"quick": 400, "thorough": 6000},
                      checkers=[], timeout=2400)],
        allowed_axioms=[],
        trusted_base=[
            "the scalar wire form is modelled over byte lists: integers are mathematical integers in the union of the i64 / u64 ranges (the Rust integer kind is not on the wire), a float is its 64 bit pattern, a text is its UTF-8 bytes (validity of UTF-8 is not modelled; inputs with invalid UTF-8 are not compared)",
            "records are modelled at the level of model values (attribute map + array / map / mixed body, as Value::write_with drives the writer and as the reader + Value recogniser rebuild them); the f32 marker, delegated (scalar) record bodies and everything the derive macro generates are NOT modelled: oracles run only the real code (h_recon/c16d for a battery of derived types)",
        ],
        assumptions=[
            "theorems cover the MessagePack form of model values (round trip with arbitrary following input, injectivity, every proper prefix of an encoding is Incomplete at any nesting depth, prefix-freeness); the typed <-> model <-> Recon <-> MessagePack agreement of derived and built-in Form types is oracle-checked on the real code only (partial)",
            "the derived battery is 20 fixed types (tag, rename, header, header_body, attr, body, skip, newtype, unit, tuple, generics, camel-case convention, tag field, enums, nesting, collections); other attribute combinations are not exercised",
            "whether a printed text reads back as the same model value is C09's business: the battery requires the two reading paths to agree always, and to return the original only when the text is faithful to the model",
        ],
    ),
    "C06": dict(
        coq_targets=["Props/C06.vo"],
        harness=[dict(pkg="h_agent", bin="c06", cases={"quick": 600, "thorough": 8000},
                      checkers=["corr", "oracle"], timeout=3000)],
        allowed_axioms=[],
        trusted_base=[
            "the handler combinators are modelled as the state machines of their Rust step functions (FollowedBy First/Second, AndThen First/Second, the result transformers Discard / Option / Map, one-shot lane actions that fail when stepped again); every lane modification here carries DIRTY | TRIGGER_HANDLER; value and map stores carry `previous` exactly as Inner / MapStoreInner do",
            "the order in which the task loop picks top-level handlers (lane commands, completed suspended futures) is NOT modelled: the harness reconstructs it from the recorded trace (first event of each command / begin marker of each suspended handler) and gives it to the model; a trace that no order of whole top-level handlers explains fails the comparison",
            "the real agent is a derived AgentLaneModel with `#[lifecycle]` handlers run by AgentModel over byte-channel lanes on a single-threaded tokio runtime; lanes are transient (no store)",
        ],
        assumptions=[
            "programs are acyclic by rank (a lifecycle handler of an item only modifies items of lower rank; suspended handlers stay below the rank of their spawner): termination is proved for such stratified programs (C06_acyclic_programs_terminate); cyclic programs are outside the claim (the documentation says they exhaust the stack)",
            "a failing handler of a lane command is abandoned and the agent carries on (the code logs `Incoming frame was rejected by the item`), whereas docs/event_handler.md says the agent fails: the model follows the code; the property's own failure clause (nothing further of the handler or of those it interrupted runs) holds either way",
            "commands are sent singly or, a third of the time, two to four at once before anything is awaited (then every lane used is synced), so the runtime chooses the order among outstanding commands and completed suspended futures; that order is read off the trace (command values are unique); value lanes, map lanes, effects, get / set / and_then / followed_by / discard / Some(..) / map / suspend are covered, other lane kinds and downlink lifecycles are not (partial)",
        ],
    ),
    "C05": dict(
        coq_targets=["Props/C05.vo"],
        harness=[dict(pkg="h_agent", bin="c05", cases={"quick": 300, "thorough": 3000},
                      checkers=["corr", "oracle"], timeout=3000),
                 dict(pkg="h_agent", bin="c05r", cases={"quick": 300, "thorough": 3000},
                      checkers=["corr", "oracle"], timeout=3000),
                 dict(pkg="h_agent", bin="c05w", cases={"quick": 500, "thorough": 8000},
                      checkers=["oracle"], timeout=3000)],
        allowed_axioms=[],
        trusted_base=[
            "third harness (c05w): the runtime's write_task on its own (hook run_write_task) with scripted lane channels, the recording store, logging remotes and virtual time, so that the inactivity timeout, the votes of the other tasks, lane events and the stop message are put in every order (the stop paths of the write task); oracle only (log_ok and provenance_ok: the store is handed, under an item's id, only what that item reported)",
            "a history is the merged log of the calls made on a recording NodePersistence (public trait) and of the frames read by the harness's remotes, in the order these happened on the single-threaded runtime; a frame is logged when the remote reads it (later than it was written), so the oracle's `persisted before published` is checked at the remote's side of the channel",
            "a crash at a point of the log is realised by starting a fresh runtime + agent on a store holding the replay of the store operations up to that point (the recording store is deterministic); the first life is ended by dropping every task (or by a clean stop) only at its end",
            "second harness (c05r): the same runtime against a scripted agent (implements the public Agent trait) whose lanes do what lanes are allowed to do - answer a sync with the current state before the change that produced it has been reported, report changes up to three requests late - so that the runtime's own ordering is tested against adversarial but legal lane behaviour",
            "the real side is the whole stack: swimos_runtime's AgentRouteTask::run_agent_with_store (init task with store initialisers, read / write tasks) and swimos_agent's AgentModel with a derived lane model (persistent and transient value / map lanes, a value store and a map store fed by the lifecycle)",
        ],
        assumptions=[
            "the write task is modelled abstractly (persist, queue, deliver or supersede); the theorems are about histories (`log_ok`) and about what a store replay restores; the tie to the code is that every observed history satisfies `log_ok`, the store ends with what the commands imply, and every restart shows the replayed state",
            "crash points are prefixes of the observed log (after a store operation or after a frame was read); the synchronous stretch between persist_response and handle_event cannot be cut by dropping tasks, so the order inside it is covered by the model's theorem only",
            "RocksDB and the in-memory store implementations are C13's subject; inactivity time-out is exercised only as a clean stop (partial)",
        ],
    ),
    "C07": dict(
        coq_targets=["Props/C07.vo"],
        harness=[dict(pkg="h_agent", bin="c07", cases={"quick": 600, "thorough": 8000},
                      checkers=["corr", "oracle"], timeout=3000)],
        allowed_axioms=[],
        trusted_base=[
            "the read task is modelled at the granularity of its select loop (one remote envelope or one new consumer per step) with its three consumer lists, dl_state, current and sync_event; feeds and flushes to consumers are taken to succeed; the inactivity votes and time-outs are not modelled (they never fire in the harness: 60 s)",
            "the write task is modelled for value downlinks (Idle / Writing, NEEDS_SYNC, latest-value backpressure) with write completion as an explicit event; FLUSHED only affects when bytes leave, not which frames",
            "the harness drives the real ValueDownlinkRuntime / MapDownlinkRuntime (attach, read and write tasks on a single-threaded runtime) step by step, letting the tasks settle after every action, so the order of events seen by the read and write tasks is the order of the actions",
        ],
        assumptions=[
            "each consumer attaches once; the remote's envelopes are arbitrary sequences (the theorems do not assume a well-behaved lane); consumers neither fail nor drop (partial)",
            "map downlinks: the read side is compared with the same model (events are opaque, SINGLE_FRAME_STATE = false); the write side's map backpressure is the runtime's MapOperationQueue, which is modelled, proved (per-key order, clear barrier, convergence of the replica) and tied to the code under C02 (Model/MapQueue.v, h_agent/c02); Model/DlMapWrite.v composes it with the write task (C07_map_commands_converge); with an attentive remote map commands pass unchanged and are compared as a sequence, with a slow socket they must satisfy the per-key oracle (in order per key, the last operation of every key is sent)",
            "with a slow socket the frames are not compared with the model (write completion is not observable precisely) but must satisfy the oracle: link first, commands a subsequence in order",
        ],
    ),
}
