#!/bin/bash
# Builds everything the checks need, offline, from files on disk only.
set -e
cd "$(dirname "$0")"
export CARGO_NET_OFFLINE=true
export OCAMLRUNPARAM=${OCAMLRUNPARAM:-s=4M,h=256M}
mkdir -p evidence replays work
( cd coq && coq_makefile -f _CoqProject -o Makefile >/dev/null && timeout 3000 make -j16 )
[ -f harness/Cargo.lock ] || cp /repo/Cargo.lock harness/Cargo.lock
( cd harness && timeout 3000 cargo build --offline --workspace --bins ) || { cp /repo/Cargo.lock harness/Cargo.lock; ( cd harness && timeout 3000 cargo build --offline --workspace --bins ); }
echo setup-ok
